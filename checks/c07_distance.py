"""C07, great_circle_distance and tunnel_distance on a sphere lattice.

All ordered pairs: value = closed form (central angle by atan2 of |u-v|,|u+v|
in longdouble; chord = 2 R sin(angle/2)), symmetry, exact zero for identical
arguments, <= half circumference / diameter, chord = 2 R sin(arc / 2R),
invariance under common longitude shifts. All ordered triples: triangle
inequality. Tolerances are the float64 conditioning bounds of c07_ref.

Modes "repr/<rep>/<form>/<n>": the same pair checks on REPR_LATTICES (values
exact in the representation) with the arguments at the positions
subsets(5)[n] of (lat1, lon1, lat2, lon2, r) in a representation of
c07_common.REPRS. The statement gives the distances no absolute tolerance:
with a float32 argument the conditioning bounds are those of float32
arithmetic; symmetry, exact zero and the upper bounds are demanded as always.
"""
import numpy as np

from mc import driver
from checks import c07_ref as ref
from checks.c07_common import (HALF_DEGREES, REPR_MODES, convert, exact,
                                representation_key, same, subsets)

LATTICES = {
    # 5 x 8: equator, both sides of +-180, exact antipodes such as
    # (30, 0)/(-30, 180) and (0, -90)/(0, 90), near antipodes (.., 179.999)
    "quick": ([-88.0, -30.0, 0.0, 30.0, 60.0],
              [-180.0, -179.999, -90.0, 0.0, 0.001, 90.0, 179.999, 180.0]),
    "thorough": ([-88.0, -60.0, -30.0, -1e-9, 0.0, 30.0, 60.0, 88.0],
                 [-180.0, -179.999, -135.0, -90.0, -45.0, 0.0, 0.001, 45.0,
                  90.0, 135.0, 179.999, 180.0]),
}
# whole and half degrees; the integer representations take the whole ones
REPR_LATTICES = {
    "quick": ([-88.0, 0.0, 30.5, 45.0], [-180.0, -90.5, 0.0, 91.0, 180.0]),
    "thorough": tuple(exact("float32", axis + HALF_DEGREES)
                      for axis in LATTICES["thorough"]),
}
SHIFTS = [0.0, 30.0, 180.0, 360.0, -270.0]
MODES = ("scalar", "flat", "grid", "bcast")
REPR_PAIR_MODES = ["repr/%s/%s/%d" % (rep, form, n) for rep, form in REPR_MODES
                   for n in range(len(subsets(5)))]
DIMS = {"scalar": "scalar", "flat": "1-D", "grid": "N-D", "bcast": "N-D"}
FORMS = {"scalar": "scalar", "1-D": "flat", "2-D": "grid"}
FUNCS = ("great_circle_distance[deg]", "great_circle_distance[m]",
         "tunnel_distance")


def earth_radius():
    from typhon import constants
    return constants.earth_radius


def parse(mode):
    """(call form, representation or None, argument positions given in it)"""
    if mode in MODES:
        return mode, None, ()
    _, rep, form, n = mode.split("/")
    return FORMS[form], rep, subsets(5)[int(n)]


def lattice(name, mode="flat"):
    rep = parse(mode)[1]
    lats, lons = LATTICES[name] if rep is None else \
        (exact(rep, axis) for axis in REPR_LATTICES[name])
    lat, lon = np.meshgrid(lats, lons, indexing="ij")
    return lat.ravel(), lon.ravel()


def shards(tier, seed):
    n = lattice(tier)[0].size
    return [("dist", "pairs", tier, mode)
            for mode in list(MODES) + REPR_PAIR_MODES] + \
        [("dist", "triples", tier, i) for i in range(n)]


def typhon_matrices(mode, lat, lon):
    """({function: (n, n) float64 matrix over ordered pairs}, None) or
    (None, violation) if a function cannot be used with this kind of
    argument (exception, or not one value per pair)."""
    from typhon import geodesy
    mode, rep, which = parse(mode)
    radius = convert(earth_radius(), rep) if 4 in which else earth_radius()
    calls = {
        FUNCS[0]: lambda *p: geodesy.great_circle_distance(*p),
        FUNCS[1]: lambda *p: geodesy.great_circle_distance(*p, r=radius),
        FUNCS[2]: lambda *p: geodesy.tunnel_distance(*p),
    }
    n = lat.size
    if mode == "bcast":     # first point on rows, second on columns
        argsets = [(lat[:, None], lon[:, None], lat[None, :], lon[None, :])]
    else:
        i, j = np.meshgrid(range(n), range(n), indexing="ij")
        if mode != "grid":  # grid: four (n, n) arrays
            i, j = i.ravel(), j.ravel()
        argsets = [(lat[i], lon[i], lat[j], lon[j])]
        if mode == "scalar":
            argsets = [tuple(float(v) for v in p) for p in zip(*argsets[0])]
    argsets = [tuple(convert(v, rep) if k in which else v
                     for k, v in enumerate(p)) for p in argsets]
    out = {}
    for name, func in calls.items():
        key = "%s/unusable-with-%s-arguments" % (name, DIMS[mode])
        try:
            values = [func(*p) for p in argsets]
        except Exception as exc:
            return None, (key, None, repr(exc), mode + " call")
        sizes = {np.size(v) for v in values}
        if sizes != {n * n // len(values)}:
            return None, (key, n * n // len(values),
                          list(np.shape(values[0])),
                          mode + " call: not one value per pair")
        out[name] = np.array([np.asarray(v, dtype=float).ravel()
                              for v in values]).reshape(n, n)
    return out, None


class Oracle:
    def __init__(self, lat, lon, eps=ref.EPS):
        radius = ref.LD(earth_radius())
        self.angle, self.a = ref.central_angle(
            lat[:, None], lon[:, None], lat[None, :], lon[None, :])
        atol = ref.arc_tolerance(self.angle, self.a, eps=eps)
        chord = 2 * radius * np.sin(self.angle / 2)
        self.value = {FUNCS[0]: self.angle / ref.RAD,
                      FUNCS[1]: radius * self.angle, FUNCS[2]: chord}
        self.tol = {FUNCS[0]: atol / ref.RAD, FUNCS[1]: radius * atol,
                    FUNCS[2]: ref.chord_tolerance(chord, float(radius),
                                                  eps=eps)}
        ulps = 1 + 4 * eps
        self.bound = {FUNCS[0]: 180 * ulps, FUNCS[1]: ref.PI * radius * ulps,
                      FUNCS[2]: 2 * radius + self.tol[FUNCS[2]]}
        # d/dc of 2 R sin(c / 2) is cos(c / 2) = sqrt(1 - a), taken over the
        # interval the computed arc may lie in
        self.relation_tol = self.tol[FUNCS[2]] + radius * atol * (
            np.sqrt(np.maximum(1 - self.a, 0)) + atol)


def first(mask):
    """Smallest (i, j) where mask holds, or None."""
    idx = np.argwhere(mask)
    return tuple(int(v) for v in idx[0]) if len(idx) else None


def pairs_verdict(lat, lon, mode):
    """check_pairs; a violation of a "repr" mode that the same values given
    as float64 do not produce is attributed to the representation."""
    found = check_pairs(lat, lon, mode)
    form, rep, _ = parse(mode)
    if found and rep:
        plain = {bad[0] for bad in check_pairs(lat, lon, form)}
        found = [bad if bad[0] in plain else
                 (representation_key(bad[0], rep),) + bad[1:]
                 for bad in found]
    return found


def check_pairs(lat, lon, mode):
    """List of (key, (i, j), shift, expected, observed, msg)."""
    found = []
    radius = ref.LD(earth_radius())
    eps = ref.EPS32 if parse(mode)[1] == "float32" else ref.EPS
    base = base_oracle = None
    for shift in SHIFTS:
        mats, bad = typhon_matrices(mode, lat, lon + shift)
        if bad:
            return found + [(bad[0], None, shift) + bad[1:]]
        oracle = Oracle(lat, lon + shift, eps)
        if shift == 0:
            base, base_oracle = mats, oracle
        for name in FUNCS:
            m, tol = ref.ld(mats[name]), oracle.tol[name]
            tests = [
                ("wrong-value", ~(np.abs(m - oracle.value[name]) <= tol),
                 oracle.value[name]),
                ("asymmetric", ~(np.abs(m - m.T) <= tol + tol.T), m.T),
                ("nonzero-for-identical-points",
                 np.eye(lat.size, dtype=bool) & (mats[name] != 0),
                 np.zeros_like(m)),
                ("exceeds-bound", ~(m <= oracle.bound[name]),
                 np.broadcast_to(oracle.bound[name], m.shape)),
                ("changes-under-longitude-shift",
                 ~(np.abs(m - base[name]) <= tol + base_oracle.tol[name]
                   + np.abs(oracle.value[name] - base_oracle.value[name])),
                 ref.ld(base[name])),
            ]
            for what, mask, expected in tests:
                at = first(mask)
                if at:
                    found.append((name + "/" + what, at, shift,
                                  float(expected[at]), float(m[at]),
                                  "%s call" % mode))
        arc, chord = ref.ld(mats[FUNCS[1]]), ref.ld(mats[FUNCS[2]])
        implied = 2 * radius * np.sin(arc / (2 * radius))
        at = first(~(np.abs(chord - implied) <= oracle.relation_tol))
        if at:
            found.append(("distances/chord-is-not-2R-sin-half-arc", at, shift,
                          float(implied[at]), float(chord[at]),
                          "%s call" % mode))
    return found


def check_triples(lat, lon, i):
    """Triangle inequality d(i,k) <= d(i,j) + d(j,k) for all j, k."""
    mats, bad = typhon_matrices("flat", lat, lon)
    if bad:
        return [(bad[0], None, 0.0) + bad[1:]]
    oracle = Oracle(lat, lon)
    found = []
    for name in FUNCS[1:]:
        m, tol = ref.ld(mats[name]), oracle.tol[name]
        via = m[i, :, None] + m                     # [j, k]
        slack = tol[i, :, None] + tol + tol[i, None, :]
        at = first(~(m[i, None, :] <= via + slack))
        if at:
            j, k = at
            found.append((name + "/triangle-inequality", (i, j, k), 0.0,
                          float(via[at]), float(m[i, k]),
                          "d(i,k) > d(i,j) + d(j,k)"))
    return found


def run_shard(shard):
    _, what, tier, arg = shard
    lat, lon = lattice(tier, arg if what == "pairs" else "flat")
    n = lat.size
    res = driver.ShardResult()
    run = (lambda: pairs_verdict(lat, lon, arg)) if what == "pairs" else \
        (lambda: check_triples(lat, lon, arg))
    found = run()
    if found and not same(run(), found):
        res.error("NONDETERMINISM in %r" % (shard,))
    if what == "pairs":
        # one case = one ordered pair (with its 4 shifted copies)
        for i in range(n):
            for j in range(n):
                res.case(nontrivial=i != j)
        res.count("dist_function_values", 3 * len(SHIFTS) * n * n)
    else:
        for j in range(n):
            for k in range(n):
                res.case(nontrivial=len({arg, j, k}) == 3)
    for key, at, shift, expected, observed, msg in found:
        points = None if at is None else [[lat[p], lon[p] + shift]
                                          for p in at]
        res.violation(key, dict(part="dist", what=what, lattice=tier,
                                arg=arg, check=key, points=points),
                      expected, observed, msg)
    res.sample(dict(part="dist", what=what, lattice=tier, arg=arg, points=n))
    return res


def replay(case):
    pairs = case["what"] == "pairs"
    lat, lon = lattice(case["lattice"], case["arg"] if pairs else "flat")
    found = pairs_verdict(lat, lon, case["arg"]) if pairs \
        else check_triples(lat, lon, case["arg"])
    for key, at, shift, expected, observed, msg in found:
        if key == case["check"]:
            return (key, expected, observed, msg)
    return None
