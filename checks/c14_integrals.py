"""C14 - column integrals and hydrostatic conversions (DESIGN.md section 3,
C14).

Part 1 (this module): typhon.math.integrate_column against the exact rational
trapezoid sum: every strictly monotone grid drawn from a short node line x
every integrand over a small integer alphabet, as Fraction / int / float
arrays, 1-D and embedded in rank-2 and rank-3 arrays along every axis; the
relations of the statement (default spacing, reversal, additivity at every
interior node, linearity); one 10^4-level column.
Part 2 (c14_profiles.py): integrate_water_vapor, column_relative_humidity,
pressure2height, standard_atmosphere.
Part 3 (c14_repr.py): all of them for the same values in other number
representations (float32, int32, int64, lists, scalar forms).
"""
import functools
import itertools
import sys
from fractions import Fraction

from mc import driver
driver.setup_env()

import numpy as np

from checks import c14_exact as ex
from checks import c14_profiles
from checks import c14_repr

PROP = "C14"
LEVEL = "exploration"
RULE = ("integrate_column: every selection of 2..5 (quick) / 2..6 (thorough) "
        "nodes of {0,1,2,4,7,11[,16]} in increasing and in decreasing order "
        "x every integrand over {-1,0,1,3} (thorough, up to 4 nodes: "
        "{-2,-1,0,1,3}) on those nodes; one evaluation = one (grid, "
        "integrand) with all its 1-D sub-checks (Fraction/int/float arrays "
        "against the exact rational sum, axis -1, reversal, additivity at "
        "every interior node, two inexact float rescalings at k-ulp "
        "tolerance), or one (grid, block of 3 or 6 integrands laid out as "
        "columns, rank 2|3, axis position, axis sign, coordinate form "
        "1-D|same-shape|size-1-broadcast|none, Fraction|float; with axis "
        "position 0 given positively the call is repeated with axis left "
        "to its default), or one "
        "linearity pair (grid of <=3 nodes, y, z, (a,b)) evaluated as "
        "columns of one rank-2 call, or one 10^4-level column. Non-trivial "
        "= some integrand involved is not constant along the integration "
        "axis. Cases are distinct by construction (products without "
        "repetition). " + c14_profiles.RULE + " " + c14_repr.RULE)
ASSUMPTIONS = [
    "integrate_column is decided on integer / half-integer lattices where "
    "binary64 arithmetic is exact, plus two rescaled float lattices with a "
    "tolerance of 4(n+2) unit roundoffs of sum |dx|(|y0|+|y1|)/2; a defect "
    "confined to other magnitudes (overflow, subnormals) is not covered",
    "grids are strictly monotone; non-monotone or repeated coordinates are "
    "outside the statement",
    "Fraction object arrays are only demanded if integrate_column accepts "
    "object arrays at all (probed once per shard; coverage key "
    "fraction_pass)",
    "at most rank 3; coordinates 1-D, of the integrand's shape, or of size 1 "
    "on the other axes",
] + c14_profiles.ASSUMPTIONS + c14_repr.ASSUMPTIONS

NODES = dict(quick=(0, 1, 2, 4, 7, 11), thorough=(0, 1, 2, 4, 7, 11, 16))
MAXLEN = dict(quick=5, thorough=6)
LIN_MAXLEN = 3
COEFFS = ((2.0, -3.0), (0.5, 0.25))        # dyadic: products stay exact
OTHER = {2: (3,), 3: (2, 3)}                # extents of the non-integrated axes
XFORMS = ("1d", "full", "keepdims")
STRIDE = 37                                 # coprime to 4**n and 5**n
FLOAT_MAPS = (
    ("tenths", lambda x: x * 0.1, lambda y: y / 3.0),
    ("pressure", lambda x: 101325.0 - 9000.7 * x, lambda y: y * 1e-3 / 7.0),
)
BIG = 10 ** 4
STATS = {"calls": 0}


@functools.lru_cache(None)
def grids(tier, n):
    out = []
    for sub in itertools.combinations(NODES[tier], n):
        out += [sub, sub[::-1]]
    return out


@functools.lru_cache(None)
def integrands(tier, n):
    wide = tier == "thorough" and n <= 4
    return list(itertools.product((-2, -1, 0, 1, 3) if wide else
                                  (-1, 0, 1, 3), repeat=n))


@functools.lru_cache(200000)
def reference(x, y):
    return ex.trapezoid(x, y)


def ic(*args, **kwargs):
    from typhon.math import integrate_column
    STATS["calls"] += 1
    return ex.call(integrate_column, *args, **kwargs)


def array(values, kind):
    if kind == "fraction":
        a = np.empty(len(values), dtype=object)
        a[:] = ex.fractions(values)
        return a
    return np.array(values, dtype=np.int64 if kind == "int" else float)


def build(columns, other, pos, kind):
    """Array of shape other[:pos] + (n,) + other[pos:] whose c-th column
    (C order over `other`) along axis `pos` is columns[c]."""
    n = len(columns[0])
    out = np.empty(other[:pos] + (n,) + other[pos:],
                   dtype=object if kind == "fraction" else float)
    for col, idx in zip(columns, np.ndindex(*other)):
        out[idx[:pos] + (slice(None),) + idx[pos:]] = array(col, kind)
    return out


def nonconstant(y):
    return len(set(y)) > 1


def kinds():
    """Number types of the exact pass; Fraction only if object arrays are
    accepted at all while float arrays work."""
    try:
        ic(array((0, 1), "fraction"), array((0, 1), "fraction"))
    except ex.Raised:
        try:
            ic(array((0, 1), "float"), array((0, 1), "float"))
            return ("int", "float")
        except ex.Raised:
            pass
    return ("fraction", "int", "float")


# --------------------------------------------------------------------------
# 1-D
# --------------------------------------------------------------------------

def check_1d(x, y, kindset):
    """x: nodes or None (default spacing); y: integrand values."""
    n = len(y)
    ref = reference(tuple(range(n)) if x is None else x, y)
    what = "default-spacing" if x is None else "wrong-integral"
    for kind in kindset:
        ya = array(y, kind)
        xa = None if x is None else array(x, kind)
        for kwargs in ({}, {"axis": -1}):
            got = ic(ya, xa, **kwargs)
            if np.ndim(got) != 0:
                return ("integrate_column/result-shape", "scalar",
                        np.shape(got), kind)
            if ex.exact(got) != ref:
                return ("integrate_column/" + what, ref, got,
                        "%s %r" % (kind, kwargs))
    if x is None:
        return None
    xa, ya = array(x, "float"), array(y, "float")
    got = ic(ya[::-1], xa[::-1])
    if ex.exact(got) != -ref:
        return ("integrate_column/reversal-sign", -ref, got, "")
    for k in range(1, n - 1):
        parts = (ic(ya[:k + 1], xa[:k + 1]), ic(ya[k:], xa[k:]))
        lo, hi = (ex.exact(p) for p in parts)
        if lo is None or hi is None or lo + hi != ref:
            return ("integrate_column/not-additive", ref, parts,
                    "split at node %d" % k)
    for name, mx, my in FLOAT_MAPS:
        xf, yf = [mx(v) for v in x], [my(v) for v in y]
        got = ic(np.array(yf), np.array(xf))
        rx, ry = ex.fractions(xf), ex.fractions(yf)
        tol = 4 * (n + 2) * ex.U * ex.trapezoid_abs(rx, ry)
        if not ex.close(got, ex.trapezoid(rx, ry), tol):
            return ("integrate_column/float-tolerance",
                    float(ex.trapezoid(rx, ry)), got,
                    "%s tol=%.3g" % (name, float(tol)))
    return None


# --------------------------------------------------------------------------
# rank 2 and 3
# --------------------------------------------------------------------------

def nd_columns(tier, n, block, rank):
    ys = integrands(tier, n)
    ncol = int(np.prod(OTHER[rank]))
    return [ys[((block * ncol + c) * STRIDE) % len(ys)] for c in range(ncol)]


def nd_blocks(tier, n, rank):
    ncol = int(np.prod(OTHER[rank]))
    return range(-(-len(integrands(tier, n)) // ncol))


def check_nd(tier, n, k, block, rank, pos, negative, xform, kind):
    other = OTHER[rank]
    cols = nd_columns(tier, n, block, rank)
    axis = pos - rank if negative else pos
    ya = build(cols, other, pos, kind)
    if xform == "none":
        colgrids = [tuple(range(n))] * len(cols)
        xa = None
    else:
        gs = grids(tier, n)
        if xform == "full":
            colgrids = [gs[(k + c) % len(gs)] for c in range(len(cols))]
            xa = build(colgrids, other, pos, kind)
        else:
            colgrids = [gs[k]] * len(cols)
            xa = array(gs[k], kind)
            if xform == "keepdims":
                xa = xa.reshape((1,) * pos + (n,) + (1,) * (rank - 1 - pos))
    refs = [reference(g, c) for g, c in zip(colgrids, cols)]
    results = [("", ic(ya, xa, axis=axis))]
    if pos == 0 and not negative:
        try:
            results.append(("default-axis-", ic(ya, xa)))
        except ex.Raised as e:
            return ("integrate_column/default-axis-raises", refs, e.text,
                    e.key)
    for what, got in results:
        if np.shape(got) != other:
            return ("integrate_column/%snd-shape" % what, other,
                    np.shape(got), "")
        for ref, idx in zip(refs, np.ndindex(*other)):
            if ex.exact(got[idx]) != ref:
                return ("integrate_column/%snd-value" % what, refs, got,
                        "column %r" % (idx,))
    return None


def nd_cases(tier, n, k, xforms, kindset):
    for rank in (2, 3):
        for block in nd_blocks(tier, n, rank):
            for pos in range(rank):
                for negative in (False, True):
                    for xform in xforms:
                        for kind in kindset:
                            if kind == "int":
                                continue
                            yield dict(part="nd", tier=tier, n=n, k=k,
                                       block=block, rank=rank, pos=pos,
                                       negative=negative, xform=xform,
                                       kind=kind)


# --------------------------------------------------------------------------
# linearity
# --------------------------------------------------------------------------

def check_lin(tier, n, k, yi, only=None):
    """I(a y + b z) = a I(y) + b I(z) for every z (columns of one rank-2
    call) and every coefficient pair; -> list of (zi, ci, bad)."""
    ys = integrands(tier, n)
    x = array(grids(tier, n)[k], "float")
    y = array(ys[yi], "float")
    z = np.array(ys, dtype=float).T
    iy, iz = ex.exact(ic(y, x)), ic(z, x, axis=0)
    out = []
    for ci, (a, b) in enumerate(COEFFS):
        got = ic(a * y[:, None] + b * z, x, axis=0)
        for zi in range(len(ys)):
            if only is not None and only != (zi, ci):
                continue
            bad = None
            if np.shape(iz) != (len(ys),) or np.shape(got) != (len(ys),):
                bad = ("integrate_column/nd-shape", (len(ys),),
                       (np.shape(iz), np.shape(got)), "")
            else:
                zexact, gexact = ex.exact(iz[zi]), ex.exact(got[zi])
                if iy is None or zexact is None or \
                        gexact != Fraction(a) * iy + Fraction(b) * zexact:
                    bad = ("integrate_column/not-linear",
                           "%r*%r + %r*%r" % (a, iy, b, zexact), got[zi], "")
            out.append((zi, ci, bad))
    return out


# --------------------------------------------------------------------------
# 10^4 levels
# --------------------------------------------------------------------------

def big_column(spacing, direction):
    steps = (1, 2, 4, 7, 11) if spacing == "irregular" else (3,)
    x = list(itertools.accumulate(steps[i % len(steps)] for i in range(BIG)))
    y = [(7 * i) % 11 - 3 for i in range(BIG)]
    return (x, y) if direction > 0 else (x[::-1], y[::-1])


def check_big(spacing, direction, kindset):
    x, y = big_column(spacing, direction)
    ref = ex.trapezoid(x, y)
    for kind in kindset:
        got = ic(array(y, kind), array(x, kind))
        if ex.exact(got) != ref:
            return ("integrate_column/wrong-integral", ref, got,
                    "%d levels %s" % (BIG, kind))
    xa, ya = array(x, "float"), array(y, "float")
    for k in range(1, BIG - 1):
        parts = (ic(ya[:k + 1], xa[:k + 1]), ic(ya[k:], xa[k:]))
        lo, hi = (ex.exact(p) for p in parts)
        if lo is None or hi is None or lo + hi != ref:
            return ("integrate_column/not-additive", ref, parts,
                    "%d levels, split at node %d" % (BIG, k))
    unit = ex.trapezoid(range(BIG), y)
    got = ic(ya)
    if ex.exact(got) != unit:
        return ("integrate_column/default-spacing", unit, got,
                "%d levels" % BIG)
    return None


# --------------------------------------------------------------------------
# driver protocol
# --------------------------------------------------------------------------

def shards(tier, seed):
    out = [("big", spacing, direction)
           for spacing in ("irregular", "uniform") for direction in (1, -1)]
    for n in range(2, MAXLEN[tier] + 1):
        out.append(("unit", tier, n))
        out += [("grid", tier, n, k) for k in range(len(grids(tier, n)))]
        if n <= LIN_MAXLEN:
            out += [("lin", tier, n, k) for k in range(len(grids(tier, n)))]
    return out + c14_profiles.shards(tier) + c14_repr.shards(tier)


def guarded(check, *args):
    try:
        return check(*args)
    except ex.Raised as e:
        return (e.key, None, e.text, "")


def run_case(case, kindset):
    """Executes one recorded case -> None or (key, expected, observed, msg)."""
    part = case["part"]
    if part == "1d":
        return guarded(check_1d, case["x"], case["y"], kindset)
    if part == "nd":
        return guarded(check_nd, *(case[f] for f in (
            "tier", "n", "k", "block", "rank", "pos", "negative", "xform",
            "kind")))
    if part == "big":
        return guarded(check_big, case["spacing"], case["direction"], kindset)
    if part == "lin":
        try:
            return check_lin(case["tier"], case["n"], case["k"], case["yi"],
                             only=(case["zi"], case["ci"]))[0][2]
        except ex.Raised as e:
            return (e.key, None, e.text, "")
    raise ValueError(part)


def judge(res, case, kindset, nontrivial):
    res.case(nontrivial=nontrivial)
    bad = run_case(case, kindset)
    if bad is not None:
        again = run_case(case, kindset)
        if again is None or again[0] != bad[0]:
            res.error("NONDETERMINISM in %r" % (case,))
        res.violation(bad[0], case, bad[1], bad[2], bad[3])


def run_lin(res, tier, n, k):
    ys = integrands(tier, n)
    case = None
    for yi, y in enumerate(ys):
        try:
            rows = check_lin(tier, n, k, yi)
        except ex.Raised as e:
            rows = [(zi, ci, (e.key, None, e.text, ""))
                    for ci in range(len(COEFFS)) for zi in range(len(ys))]
        for zi, ci, bad in rows:
            case = dict(part="lin", tier=tier, n=n, k=k, yi=yi, zi=zi, ci=ci,
                        x=grids(tier, n)[k], y=y, z=ys[zi], ab=COEFFS[ci])
            res.case(nontrivial=nonconstant(y) or nonconstant(ys[zi]))
            if bad is not None:
                res.violation(bad[0], case, bad[1], bad[2], bad[3])
    res.sample(case)


def run_shard(shard):
    if shard[0] == "profiles":
        return c14_profiles.run_shard(shard)
    if shard[0] == "repr":
        return c14_repr.run_shard(shard)
    res = driver.ShardResult()
    STATS["calls"] = 0
    kindset = kinds()
    res.flag("fraction_pass", "fraction" in kindset)
    if shard[0] == "big":
        case = dict(part="big", spacing=shard[1], direction=shard[2])
        judge(res, case, kindset, True)
        res.count("big_column_splits", BIG - 2)
    elif shard[0] == "lin":
        run_lin(res, *shard[1:])
    else:
        tier, n = shard[1], shard[2]
        if shard[0] == "unit":
            k, x, xforms = 0, None, ("none",)
        else:
            k, xforms = shard[3], XFORMS
            x = grids(tier, n)[k]
        for y in integrands(tier, n):
            case = dict(part="1d", x=x, y=y)
            judge(res, case, kindset, nonconstant(y))
        res.sample(case)
        for case in nd_cases(tier, n, k, xforms, kindset):
            cols = nd_columns(tier, n, case["block"], case["rank"])
            judge(res, case, kindset, any(map(nonconstant, cols)))
        res.sample(dict(case, x=x, columns=cols))
    res.count("integrate_column_calls", STATS["calls"])
    return res


def replay(case):
    if case["part"] in ("1d", "nd", "big", "lin"):
        if case.get("x") is not None:
            case = dict(case, x=tuple(case["x"]))
        if "y" in case:
            case = dict(case, y=tuple(case["y"]))
        bad = run_case(case, kinds())
    elif case["part"] == "repr":
        bad = c14_repr.run_case(case)
    else:
        bad = c14_profiles.run_case(case)
    if bad is None:
        return dict(ok=True)
    return dict(ok=False, key=bad[0], expected=bad[1], observed=bad[2],
                msg=bad[3])


if __name__ == "__main__":
    driver.main(sys.modules[__name__])
