"""C06 - GeoIndex.query returns exactly the points within the radius
(DESIGN.md section 3, C06).

numpy.random.shuffle is the 'schedule' of this randomised structure: it is
replaced by a harness function (c06_model.ShuffleSeam) that applies the
permutation chosen here, and every permutation of the build points is imposed.

Part "small": build sequences over 8 positions x shuffle off / every
permutation x metric/tree x leaf size x query sequences over 3 positions x
radii (numbers and every unit name). Part "large" (c06_large.py): regular
grids of 200 and 5000 points with the structured permutation family. Part
"many" (c06_many.py): one call with n query points for every n up to a bound.
Part "history" (c06_history.py): several indexes alive at once. Part "radius"
(c06_radius.py): spellings of a metre-scale radius and numpy scalars. Part
"repr" (c06_repr.py): the positions as float32 and integer arrays.
"""
import itertools
import math
import sys

from mc import driver
driver.setup_env()

import numpy as np                                    # noqa: E402

from checks import (c06_history, c06_large, c06_many,   # noqa: E402
                    c06_model as model, c06_radius, c06_repr)

PROP = "C06"
LEVEL = "exploration"
RULE = ("Small part: build arrays = every sequence (with repetition) of "
        "length 1..3 over 8 positions (3-point meridian cluster spaced 0.6 r, "
        "the pole with two longitudes, the antipode of the first point on "
        "lon 180, its neighbour across the date line, a point whose chord is "
        "below and whose arc is above 2000 km), each with shuffle off and "
        "with EVERY one of the n! permutations imposed through "
        "numpy.random.shuffle; thorough adds length 4 (every sequence with "
        "shuffle off; every multiset in sorted order x all 24 permutations, "
        "so that the tree still sees every arrangement) and length 5 "
        "(multisets x all 120 permutations, default configuration only). "
        "Crossed with (default = minkowski/Ball, minkowski/KD, "
        "haversine/Ball) x leaf_size (quick: default, 1 for lengths 1-2, "
        "default for length 3; thorough: default, 1, 2 for lengths 1-3, "
        "default, 1 for length 4) x every query sequence of length 1..2 "
        "(thorough: 1..3 for lengths 1-2) over 3 query positions x the "
        "radii 5, 0.001, 2000, diameter + 0.1 km and (haversine) half "
        "circumference - 0.4 km, plus one call with return_distance=False "
        "at 5 km. Builds of length 1 are also queried with the radius "
        "written in each of the 19 unit names and as a bare number string, "
        "just above and just below a lattice distance (3.000044 / 3.0000415 "
        "km), and with these two numbers. One evaluation = one query() "
        "call; all are distinct inputs by construction. Non-trivial = at "
        "least one pair is expected.")
RULE += " ".join(["", c06_radius.RULE, c06_repr.RULE, c06_large.RULE,
                  c06_many.RULE, c06_history.RULE])
ASSUMPTIONS = [
    "the Earth is the sphere of radius typhon.constants.earth_radius",
    "lat, lon are passed as 1-d numpy arrays (lists and scalars are "
    "rejected by _to_metric with a ValueError although the docstring of "
    "query() allows them): float64 everywhere, float32 / int64 / int32 in "
    "the representation part only, on lattices whose coordinates these "
    "types hold exactly; lon in [-180, 180]. A float32 or integer array "
    "denotes the same numbers as its float64 conversion, so the same pairs "
    "and distances (same tolerance) are demanded: arithmetic in the "
    "narrower type is not accepted (it moves a point by up to 1.2 m, "
    "which loses coincident points at a radius of 1 m)",
    "metric='haversine' with tree_class='KD' is rejected by scikit-learn "
    "(ValueError in the constructor) and is outside the domain; each "
    "explicit spelling (metric='minkowski', tree_class='KD', 'Ball') occurs "
    "in one of the three metric/tree combinations, not in every "
    "combination with the defaults of the other argument",
    "a radius is a Python int or float, a numpy integer or floating scalar "
    "or a string '<number><blanks or tab><unit>' with blanks around it; "
    "numpy.float32 radii keep 2e-7 (relative) away from every lattice "
    "distance (asserted)",
    "the build points are shuffled by a call of numpy.random.shuffle on an "
    "array of their length; a build with shuffle on that does not reach "
    "this seam is a harness error, not a pass",
    "no lattice distance lies within 1e-9 relative (or 1e-12 km) of a "
    "radius (asserted by the generator); distances are compared to 1e-6 "
    "relative + 1 mm",
    "haversine radii above half the circumference are outside the domain of "
    "the statement (scikit-learn compares sin^2(r/2), which decreases "
    "beyond pi, and loses antipodal points there)",
    "query(..., return_distance=False) is held to the same pairs as the "
    "default call",
    "scikit-learn's trees are exercised through typhon only; for <= 5 points "
    "leaf sizes 2 and 40 give single-node trees, real tree structure comes "
    "from leaf_size=1 and from the large part",
]

# (lat, lon) in degrees; one degree of arc is 111.319 km
BUILD_POS = [
    (-0.02, 0.0),       # 0 cluster: the first point
    (0.00695, 0.0),     # 1 cluster: 3 km north of it
    (0.0339, 0.0),      # 2 cluster: 6 km north of it
    (90.0, 30.0),       # 3 the pole
    (90.0, -150.0),     # 4 the pole again
    (0.02, 180.0),      # 5 antipode of 0, on the date line
    (0.02, -179.98),    # 6 2.2 km east of 5, across the date line
    (17.98, 0.0),       # 7 18 deg from 0: chord 1995.5 km, arc 2003.7 km
]
QUERY_POS = [
    (-0.02, 0.0),       # 0 on build position 0
    (90.0, -60.0),      # 1 the pole with a third longitude
    (0.02, 179.99),     # 2 between build positions 5 and 6
]
NUMERIC_RADII = [5, 0.001, 2000, model.DIAMETER_KM + 0.1,
                 model.HALF_CIRCUMFERENCE_KM - 0.4]
# Radii with units are written 4e-7 (relative) above and below the 3.0000428 km
# between build position 1 and query position 0, which pins every conversion
# factor to better than 1e-6; each is judged against the same length given as
# a number.
TWINS = [3.000044, 3.0000415]
TWIN_OF = {model.spelled(repr(km), unit): km
           for km in TWINS for unit in model.UNIT_KM}
# the same radii in other number spellings (sign, exponent, bare leading
# decimal point, no blank before the unit) for three units
for _km in TWINS:
    for _unit in ("km", "m", "miles"):
        _number = model.spelled(repr(_km), _unit).partition(" ")[0]
        for _form in model.number_forms(_number):
            TWIN_OF[_form + " " + _unit] = _km
        TWIN_OF[_number + _unit] = _km

DIST = model.distance_matrices(*zip(*BUILD_POS), *zip(*QUERY_POS))


def lattice_errors():
    """Generator-side assertions: empty don't-care band; a radius with a unit
    selects the pairs of its numeric twin."""
    errors = []
    for metric, d in DIST.items():
        for r in NUMERIC_RADII + TWINS + list(TWIN_OF):
            if model.in_band(d, model.radius_km(r)):
                errors.append("distance in the don't-care band: %s r=%r" % (
                    metric, r))
        for r, km in TWIN_OF.items():
            if ((d <= model.radius_km(r)) != (d <= model.radius_km(km))).any():
                errors.append("%r does not select the pairs of %r km" % (
                    r, km))
        if (d <= TWINS[0]).sum() == (d <= TWINS[1]).sum():
            errors.append("no distance between the twin radii (%s)" % metric)
    return errors


def query_sequences(maxlen):
    return [q for n in range(1, maxlen + 1)
            for q in itertools.product(range(len(QUERY_POS)), repeat=n)]


# part = (n, kind of build inputs, shuffles, configurations, longest query
# sequence, radii)
def parts(tier):
    if tier == "quick":
        return [(1, "sequences", "both", "leaf<2", 2, "all"),
                (2, "sequences", "both", "leaf<2", 2, "numeric"),
                (3, "sequences", "both", "leaf default", 2, "numeric")]
    return [
        (1, "sequences", "both", "all", 3, "all"),
        (2, "sequences", "both", "all", 3, "numeric"),
        (3, "sequences", "both", "all", 2, "numeric"),
        (4, "sequences", "off", "leaf<2", 2, "numeric"),
        (4, "multisets", "on", "leaf<2", 2, "numeric"),
        (5, "multisets", "on", "default", 2, "numeric")]


def build_inputs(part):
    n, kind = part[:2]
    if kind == "sequences":
        return list(itertools.product(range(len(BUILD_POS)), repeat=n))
    return list(itertools.combinations_with_replacement(
        range(len(BUILD_POS)), n))


def shuffles(part):
    """None = shuffle off, else the permutation to impose."""
    n, _, which = part[:3]
    out = [None] if which in ("both", "off") else []
    if which in ("both", "on"):
        out += list(itertools.permutations(range(n)))
    return out


def configurations(part):
    if part[3] == "default":
        return [(None, None, None)]
    if part[3] == "leaf<2":
        return [c for c in model.CONFIGURATIONS if c[2] != 2]
    if part[3] == "leaf default":
        return [c for c in model.CONFIGURATIONS if c[2] is None]
    return model.CONFIGURATIONS


def calls(part, metric):
    """The query() calls made for one index and query sequence:
    (radius, return_distance)."""
    # every chord is below the diameter: the last radius adds nothing there
    out = NUMERIC_RADII[:-1] if metric == "minkowski" else NUMERIC_RADII[:]
    if part[5] == "all":
        out += TWINS + list(TWIN_OF)
    return [(r, True) for r in out] + [(NUMERIC_RADII[0], False)]


def queries_per_input(part):
    per_config = sum(len(calls(part, m or "minkowski"))
                     for m, _, _ in configurations(part))
    return per_config * len(shuffles(part)) * len(query_sequences(part[4]))


def shards(tier, seed):
    out = []
    for part in parts(tier):
        total = len(build_inputs(part)) * queries_per_input(part)
        nchunks = min(len(build_inputs(part)), math.ceil(total / 60000))
        out += [("small", part, k, nchunks) for k in range(nchunks)]
    return out + c06_radius.shards(tier, seed) + \
        c06_repr.shards(tier, seed) + c06_large.shards(tier, seed) + c06_many.shards(tier, seed) + \
        c06_history.shards(tier, seed)


class Small:
    """The cases of one build array."""

    def __init__(self, seq):
        self.seq = seq
        self.lat = np.array([BUILD_POS[p][0] for p in seq])
        self.lon = np.array([BUILD_POS[p][1] for p in seq])
        self._expected = {}

    def expected(self, metric, qseq, r):
        key = (metric, qseq, r)
        if key not in self._expected:
            d, rk = DIST[metric], model.radius_km(r)
            self._expected[key] = {
                (i, j): float(d[p, q]) for i, p in enumerate(self.seq)
                for j, q in enumerate(qseq) if d[p, q] <= rk}
        return self._expected[key]


def query_arrays(qseq):
    return (np.array([QUERY_POS[q][0] for q in qseq]),
            np.array([QUERY_POS[q][1] for q in qseq]))


def unit_verdict(bad, r, bad_twin):
    """A radius with a unit against its numeric twin on the same index and
    query."""
    return model.spelling_verdict(bad, bad_twin, model.unit_key(r))


def run_small(res, seam, shard):
    _, part, k, nchunks = shard
    qseqs = [(q,) + query_arrays(q) for q in query_sequences(part[4])]
    for seq in build_inputs(part)[k::nchunks]:
        small = Small(seq)
        for metric, tree, leaf in configurations(part):
            oracle_metric = metric or "minkowski"
            for perm in shuffles(part):
                case = dict(part="small", build=seq, perm=perm, metric=metric,
                            tree=tree, leaf=leaf)
                try:
                    index = model.make_index(seam, small.lat, small.lon,
                                             perm, metric, tree, leaf)
                except model.SeamNotHit as e:
                    res.error(str(e))
                    return
                except Exception as e:
                    model.reraise_watchdog(e)
                    res.violation("build/exception/" + type(e).__name__,
                                  case, None, repr(e)[:200])
                    continue
                res.count("indexes_built")
                res.count("permutations_imposed", int(perm is not None))
                for qseq, qlat, qlon in qseqs:
                    verdicts = {}
                    for r, with_distances in calls(part, oracle_metric):
                        exp = small.expected(oracle_metric, qseq, r)
                        bad, at_00 = model.evaluate(
                            index, perm, exp, oracle_metric, qlat, qlon, r,
                            with_distances)
                        res.case(nontrivial=bool(exp))
                        res.count("only_pair_is_tree0_query0", int(at_00))
                        if r in TWIN_OF:
                            bad = unit_verdict(bad, r, verdicts[TWIN_OF[r]])
                        elif with_distances:
                            verdicts[r] = bad
                        if bad is not None:
                            model.report(res, replay, bad, dict(
                                case, query=qseq, r=r,
                                return_distance=with_distances))
    res.sample(dict(case, query=qseqs[-1][0], r=r,
                    return_distance=with_distances,
                    positions=[BUILD_POS[p] for p in case["build"]]))


def run_shard(shard):
    res = driver.ShardResult()
    for e in lattice_errors() + c06_radius.lattice_errors() + \
            c06_repr.lattice_errors() + c06_large.lattice_errors() + \
            c06_many.lattice_errors():
        res.error(e)
    if res.errors:
        return res
    with model.owned_shuffle() as seam:
        if shard[0] == "large":
            c06_large.run(res, seam, shard, replay)
        elif shard[0] == "many":
            c06_many.run(res, seam, shard, replay)
        elif shard[0] == "history":
            c06_history.run(res, seam, shard, replay)
        elif shard[0] == "radius":
            c06_radius.run(res, seam, shard, replay)
        elif shard[0] == "repr":
            c06_repr.run(res, seam, shard, replay)
        else:
            run_small(res, seam, shard)
    return res


def replay_small(seam, case):
    seq = tuple(case["build"])
    perm = None if case["perm"] is None else tuple(case["perm"])
    qseq, r = tuple(case["query"]), case["r"]
    metric = case["metric"] or "minkowski"
    small = Small(seq)
    index = model.make_index(seam, small.lat, small.lon, perm, case["metric"],
                             case["tree"], case["leaf"])
    qlat, qlon = query_arrays(qseq)
    bad, _ = model.evaluate(index, perm, small.expected(metric, qseq, r),
                            metric, qlat, qlon, r, case["return_distance"])
    if r not in TWIN_OF:
        return bad
    twin = TWIN_OF[r]
    bad_twin, _ = model.evaluate(
        index, perm, small.expected(metric, qseq, twin), metric, qlat, qlon,
        twin)
    return unit_verdict(bad, r, bad_twin)


def replay(case):
    with model.owned_shuffle() as seam:
        if case["part"] == "large":
            bad = c06_large.replay(seam, case)
        elif case["part"] == "many":
            bad = c06_many.replay(seam, case)
        elif case["part"] == "history":
            bad = c06_history.replay(seam, case)
        elif case["part"] == "radius":
            bad = c06_radius.replay(seam, case)
        elif case["part"] == "repr":
            bad = c06_repr.replay(seam, case)
        else:
            bad = replay_small(seam, case)
    if bad is None:
        return dict(ok=True)
    return dict(ok=False, key=bad[0], expected=bad[1], observed=bad[2],
                msg=bad[3])


if __name__ == "__main__":
    driver.main(sys.modules[__name__])
