"""C11 - environment seams shared by the BFS and the round-trip part."""
import contextlib
import io


class _NoGC:
    @staticmethod
    def collect():
        return 0


@contextlib.contextmanager
def controlled():
    """While an operation runs: pools inside typhon are synchronous (no OS
    scheduling reaches an oracle), gc.collect() in collect() (38 ms) is
    skipped and the dry run's printing is swallowed."""
    import typhon.files.fileset as fsmod
    from mc.pool import InlineExecutor
    saved = (fsmod.ThreadPoolExecutor, fsmod.ProcessPoolExecutor, fsmod.gc)
    fsmod.ThreadPoolExecutor = fsmod.ProcessPoolExecutor = InlineExecutor
    fsmod.gc = _NoGC
    try:
        with contextlib.redirect_stdout(io.StringIO()):
            yield
    finally:
        fsmod.ThreadPoolExecutor, fsmod.ProcessPoolExecutor, fsmod.gc = saved
