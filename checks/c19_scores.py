"""C19 - retrieval scores (DESIGN.md section 3, C19).

Part "minimiser": every sample of <= L values over VALUES; the real
mean_quantile_score is evaluated for every candidate constant estimate
(sample values, midpoints, one point outside on each side) and every tau; the
constants it ranks best must be exactly the tau-quantiles by counting.
Part "large": the same for one sample of 1023 and one of 10^4 values with
heavy tails, candidates around every tau*n-th order statistic, and one
(n, 7) matrix of estimates against the exact loss element by element.
Part "pointwise": every (observations, estimates, taus) triple of small
(n, k) shapes in every accepted input layout against the exact pinball loss.
Part "scaled": the small pointwise cases with observations and estimates
multiplied by a common factor (1e-300 .. 1e300) and passed as float64, float32
and integer arrays, against the exact pinball loss of the scaled values.
Part "shapes": every combination of array shapes up to 4 x 4; documented
layouts must work, size-inconsistent ones must raise ValueError.
Part "percent": mape / bias (c19_percent.py).
"""
import collections
import functools
import itertools
import math
import sys
from fractions import Fraction as F

from mc import driver
driver.setup_env()

import numpy as np                                     # noqa: E402
from typhon.retrieval import scores                    # noqa: E402

from checks import c19_percent                         # noqa: E402

PROP = "C19"
LEVEL = "exploration"
RULE = ("minimiser: every sequence of 1..L values from {-2, 0, 1, 3.5, 100} "
        "(L=5 quick, 6 thorough; ties arise from repetition) x 7 taus "
        "(T = {.1, .25, .5, .75, .9} and E = {.001, .999}), each "
        "with all candidate constants (distinct sample values, their "
        "midpoints, min-1, max+1) in 2 layouts; non-trivial = the sample has "
        ">= 2 distinct values. large: one heavy-tailed sample with ties of "
        "1023 and one of 10^4 values x the 7 taus x 2 layouts, candidate "
        "constants = the distinct values up to two places around each "
        "tau*n-th order statistic; plus quantile_score and "
        "mean_quantile_score of the (n, 7) matrix of rotated samples against "
        "the exact loss of every element, with y_tau and y_test as every "
        "pair of {float64, float32, int64, int32} arrays. pointwise: every "
        "(y in V^n, "
        "estimates in V^(n x k), taus in T^k or E^k ordered with repetition) "
        "for (n, k) with "
        "n*k <= 4 (quick: n, k <= 3), in 8 (k=1) / 4 (k>1) layouts, both "
        "functions, in the first layout also with y_tau and/or y_test as "
        "int64 where integral; non-trivial = some estimate differs from its "
        "observation. scaled: the pointwise cases with n*k <= 2 (quick) / 3 "
        "(thorough) x a common factor of y and estimates from {1, 1e-8, "
        "1e-9, 1e-12, 1e-30, 1e-300, 1e30, 1e300, 2^-40, 2^40} (factor 1 only "
        "where all values are 0), in the first and the last layout, in the "
        "first one with y_tau and y_test as "
        "every pair of {float64, float32, int64, int32, int16} arrays that "
        "hold the scaled values exactly; same non-trivial rule. shapes: "
        "every (y_tau shape, y_test shape, taus form) "
        "from 20 x 12 x 9 shapes with sides 1..4, the documented ones with "
        "125 fillings; non-trivial = documented layout or size-inconsistent "
        "(an outcome is demanded). percent: every sequence of <= 4 (quick) / "
        "5 (thorough) truths from {+-1, +-2, 0.5, 1e-9, 1e6} with a uniform "
        "offset from {0, +-1, +-10, 50} %, and every sequence of 2 (quick) / "
        "<= 3 (thorough) (truth, offset) pairs with differing offsets, each "
        "x {mape, bias} x scale {1, -3, 1e-3, 7} x layouts {both (n,), "
        "(n,1), (1,n), (n/2,2); prediction (n,1) with truth (n,) and vice "
        "versa; both (n,) with the prediction or the truth as int64 where "
        "its values are integral}; the sorted sequence in addition x scale "
        "{1e-8, 1e-9, 1e-12, 1e-30, 1e-300, 1e30, 1e300, 2^-40, 2^40} (all "
        "13 scales; scalings leaving the normal float64 range are skipped "
        "and counted) x the layouts above and both (n,) or both (n,1) with "
        "the prediction, the truth or both as {int64, int32, int16, float32} "
        "where that dtype holds the values exactly; non-trivial = some "
        "offset != 0. All cases are distinct by construction (products "
        "without repetition).")
ASSUMPTIONS = [
    "sample values are dyadic rationals (small parts: differences are exact "
    "in float64; large samples and scaled values: one rounding of the "
    "difference); the "
    "tolerance (4 ulp per loss, n+4 ulp per mean of non-negative terms) "
    "covers the roundings of d, tau*|d|, (1-tau)*|d| and the summation only",
    "the oracle is exact rational arithmetic on the float inputs; a "
    "tau-quantile is a c with #(y<c) <= tau*n <= #(y<=c)",
    "y_tau and y_test are numpy arrays of float64 or - in the first layout of "
    "a case, where the dtype holds the values exactly - int64 (pointwise), "
    "float32 / int64 / int32 / int16 (scaled, large); lists, Python scalars, "
    "0-d arrays, NaN and empty arrays are not exercised (the statement "
    "speaks of arrays of shape (n,), (n,1), (n,k)); samples have <= 6 "
    "values exhaustively, 1023 and 10^4 values with one sample each; the "
    "taus in one vector are all from T or all from E",
    "float32 and integer arguments: the sample values and their differences "
    "are exact in those dtypes, so the float64 tolerance applies; only a "
    "result that itself is float32 while no argument was float64 is held to "
    "float32 ulps",
    "common factors are applied to the small pointwise cases only (the loss "
    "is computed element by element); the minimiser and the large samples "
    "are not rescaled. The oracle is the exact loss of the scaled float64 "
    "values, which contains positive homogeneity",
    "a constant counts as a minimiser if its float mean loss is within "
    "1e-12 of the lowest, relative to the largest loss of a candidate; the "
    "generator asserts (harness error) that no exact loss of a non-quantile "
    "lies within 1e-9 of the minimum, also for the large samples",
    "mape/bias: arrays of another dtype than float64 only as (n,) or (n,1) "
    "and, if both, with the same dtype; the 9 wide scales and these dtypes "
    "only for the sorted order of a sample; with both arguments float32 "
    "typhon may compute in float32: n+4 float32 ulps of the largest offset "
    "are added to the tolerance. Subnormal values, Python scalars, lists and "
    "0-d arrays are not exercised (the statement speaks of truth vectors, "
    "the documentation of numpy arrays)",
    "shape combinations whose sizes agree (y_tau.size == y_test.size * "
    "taus.size) but whose axes do not follow the documented (n, k) layout "
    "are accepted with any outcome (the statement does not say which reading "
    "wins); they are counted as unspecified_shape_combinations",
    "'p percent too high' means y_pred = y_true * (1 + p/100), the reading "
    "under which the documented bias formula gives +p for negative truths "
    "too; mape/bias get prediction and truth of the same shape, or one "
    "of them as (n,) and the other as (n,1)",
]

VALUES = (-2.0, 0.0, 1.0, 3.5, 100.0)
TAUS = (0.1, 0.25, 0.5, 0.75, 0.9)
EXTREME_TAUS = (1e-3, 0.999)
MIN_TAUS = EXTREME_TAUS[:1] + TAUS + EXTREME_TAUS[1:]     # minimiser, large
LARGE_SIZES = (1023, 10 ** 4)
EPS = F(1, 2 ** 52)
EPS32 = F(1, 2 ** 23)
SCALED = (1,) + c19_percent.WIDE_SCALES
ALL_DTYPES = ("float32", "int64", "int32", "int16")


# ---------------------------------------------------------------- oracle

@functools.lru_cache(maxsize=None)
def pinball(tau, q, y):
    """Exact loss of the estimate q for the observation y; tau a Fraction."""
    d = F(q) - F(y)
    return tau * -d if d < 0 else (1 - tau) * d


def close(obs, exact, ulps, eps=EPS):
    return math.isfinite(obs) and \
        abs(F(float(obs)) - exact) <= ulps * eps * abs(exact)


@functools.lru_cache(maxsize=2)
def multiplicities(y):
    """Sorted (value, count) pairs of the sample."""
    return tuple(sorted(collections.Counter(y).items()))


@functools.lru_cache(maxsize=2 * len(MIN_TAUS))
def exact_losses(y, tau):
    """Exact mean loss of every candidate constant; tau a Fraction."""
    return {c: sum(k * pinball(tau, c, v) for v, k in multiplicities(y))
            / len(y) for c in candidates(y)}


def is_quantile(c, y, tau):
    below = sum(k for v, k in multiplicities(y) if v < c)
    upto = sum(k for v, k in multiplicities(y) if v <= c)
    return below <= tau * len(y) <= upto


def judge_scores(out, y, est, taus, eps=EPS):
    """out = quantile_score(...) for observations y (n), estimates est
    (n rows of k) and taus (k); eps = the precision the result is held to.
    None or (key, expected, observed, msg)."""
    n, k = len(y), len(taus)
    if np.shape(out) != (n, k):
        return ("quantile_score/result-shape", [n, k], list(np.shape(out)),
                "")
    for i, j in itertools.product(range(n), range(k)):
        tau, obs = F(taus[j]), float(out[i][j])
        exact = pinball(tau, est[i][j], y[i])
        if obs < 0:
            return ("quantile_score/negative", float(exact), obs,
                    "element (%d, %d)" % (i, j))
        if (obs == 0) != (exact == 0):
            return ("quantile_score/zero-iff-equal", float(exact), obs,
                    "element (%d, %d)" % (i, j))
        if not close(obs, exact, 4, eps):
            return ("quantile_score/not-pinball", float(exact), obs,
                    "element (%d, %d)" % (i, j))
    return None


def judge_means(out, y, est, taus, eps=EPS):
    n, k = len(y), len(taus)
    if np.shape(out) != (k,):
        return ("mean_quantile_score/result-shape", [k],
                list(np.shape(out)), "")
    for j in range(k):
        exact = sum(pinball(F(taus[j]), est[i][j], y[i])
                    for i in range(n)) / n
        if not close(out[j], exact, n + 4, eps):
            return ("mean_quantile_score/not-mean-pinball", float(exact),
                    float(out[j]), "column %d" % j)
    return None


JUDGES = dict(quantile_score=judge_scores, mean_quantile_score=judge_means)
CALLS = [0]


def call(func, y_tau, y_test, taus):
    CALLS[0] += 1
    return getattr(scores, func)(y_tau, y_test, taus)


@functools.lru_cache(maxsize=64)
def representable(values, dtype):
    """Does an array of dtype hold the float64 values exactly?"""
    a = np.array(values, dtype=float)
    with np.errstate(all="ignore"):
        return np.array_equal(a.astype(dtype).astype(float), a)


def dtype_variants(y, est, kinds):
    """(dtype of y_tau, dtype of y_test): float64 always, the other kinds
    where they hold the values exactly (e.g. counts as integer arrays)."""
    return [(a, b) for a, b in itertools.product((float,) + kinds, repeat=2)
            if representable(est, a) and representable(y, b)]


def run_layout(func, y, est, taus, layout, dtypes=(float, float)):
    """Calls typhon with the case arranged as `layout` = (y_tau ndim, y_test
    ndim, taus form). -> (result, None) or (None, exception)."""
    tdim, ydim, form = layout
    y_tau = np.array(est, dtype=float).astype(dtypes[0]).reshape(
        (len(y),) if tdim == 1 else (len(y), len(taus)))
    y_test = np.array(y, dtype=float).astype(dtypes[1]).reshape(
        (len(y),) if ydim == 1 else (len(y), 1))
    t = dict(scalar=lambda: taus[0], list=lambda: list(taus),
             array=lambda: np.array(taus))[form]()
    try:
        return call(func, y_tau, y_test, t), None
    except Exception as exc:
        return None, exc


def layouts(k):
    """Every documented way of passing n observations and n x k estimates."""
    if k == 1:
        return list(itertools.product((1, 2), (1, 2), ("scalar", "array")))
    return list(itertools.product((2,), (1, 2), ("list", "array")))


def check_documented(y, est, taus, which=None, kinds=("int64",)):
    """The case in every layout (or only those in `which`), both functions;
    in the first layout also as arrays of the other dtype `kinds`."""
    variants = dtype_variants(y, est, kinds)
    for func, judge in JUDGES.items():
        verified = None
        for li, layout in enumerate(which or layouts(len(taus))):
            for dtypes in (variants if li == 0 else variants[:1]):
                out, exc = run_layout(func, y, est, taus, layout, dtypes)
                where = "layout %r dtypes %r" % (layout, dtypes)
                if exc is not None:
                    return ("exception/%s/%s" % (func, type(exc).__name__),
                            "a result", repr(exc)[:200], where)
                # identical bits as an already judged result: same verdict
                if verified is not None and \
                        np.shape(out) == verified.shape \
                        and np.array_equal(out, verified):
                    continue
                # typhon may compute in single precision where no argument
                # is float64
                single = np.asarray(out).dtype == np.float32 \
                    and float not in dtypes
                bad = judge(out, y, est, taus, EPS32 if single else EPS)
                if bad is not None:
                    return bad[:3] + ((bad[3] + " " + where).strip(),)
                verified = np.asarray(out)
    return None


# ------------------------------------------------------------ minimiser

def candidates(y):
    """Constant estimates tried for the sample: for a small sample every
    distinct value, the midpoints and one point outside on each side; for a
    large one, per tau, the distinct values up to two places around the
    tau * n-th order statistic."""
    ys = [v for v, _ in multiplicities(y)]
    if len(y) < min(LARGE_SIZES):
        mids = [(a + b) / 2 for a, b in zip(ys, ys[1:])]
        return [ys[0] - 1] + sorted(ys + mids) + [ys[-1] + 1]
    ranks = list(itertools.accumulate(k for _, k in multiplicities(y)))
    near = set()
    for tau in MIN_TAUS:
        i = next(i for i, r in enumerate(ranks) if r >= F(tau) * len(y))
        near.update(ys[max(i - 2, 0):i + 3])
    return sorted(near)


@functools.lru_cache(maxsize=1)
def matrix_losses(y):
    """typhon's mean loss of every candidate constant, one (n, 7) call per
    constant -> {c: [loss per tau]}; shared by the 7 tau cases of y."""
    return {c: [float(v) for v in call(
        "mean_quantile_score", np.full((len(y), len(MIN_TAUS)), c),
        np.array(y), np.array(MIN_TAUS))] for c in candidates(y)}


def vector_losses(y, tau):
    """The same for one scalar tau, estimates (n,), observations (n, 1)."""
    return {c: float(call("mean_quantile_score", np.full(len(y), c),
                          np.array(y).reshape(-1, 1), tau)[0])
            for c in candidates(y)}


def check_minimiser(y, tau_index, matrix):
    """None, (key, expected, observed, msg) or ("HARNESS", msg)."""
    tau = F(MIN_TAUS[tau_index])
    cands = candidates(y)
    exact = exact_losses(y, tau)
    best, scale = min(exact.values()), max(exact.values())
    quantiles = [c for c in cands if is_quantile(c, y, tau)]
    if quantiles != [c for c in cands if exact[c] == best]:
        return ("HARNESS", "oracle: exact minimisers are not the quantiles")
    if any(best < v <= best + scale * F(1, 10 ** 9) for v in exact.values()):
        return ("HARNESS", "candidate inside the don't-care band")
    try:
        loss = vector_losses(y, MIN_TAUS[tau_index]) if not matrix else \
            {c: v[tau_index] for c, v in matrix_losses(y).items()}
    except Exception as exc:
        return ("exception/mean_quantile_score/" + type(exc).__name__,
                "a result", repr(exc)[:200], "")
    if not all(math.isfinite(v) for v in loss.values()):
        return ("mean_quantile_score/not-finite", None, loss, "")
    lowest = min(loss.values())
    minimisers = [c for c in cands
                  if loss[c] <= lowest + 1e-12 * float(scale)]
    msg = "tau=%r losses=%r" % (MIN_TAUS[tau_index], loss)
    if any(c not in quantiles for c in minimisers):
        return ("minimiser/not-a-tau-quantile", quantiles, minimisers, msg)
    for c in cands:
        if not close(loss[c], exact[c], len(y) + 4):
            return ("mean_quantile_score/not-mean-pinball", float(exact[c]),
                    loss[c], "constant %r tau=%r" % (c, MIN_TAUS[tau_index]))
    return None


def recheck_minimiser(*case):
    matrix_losses.cache_clear()
    return check_minimiser(*case)


def minimiser_cases(res, y, case):
    res.count("constant_estimates", len(candidates(y)))
    for tau_index, matrix in itertools.product(range(len(MIN_TAUS)),
                                               (True, False)):
        res.case(nontrivial=len(set(y)) > 1)
        report(res, dict(case, tau_index=tau_index, matrix=matrix),
               check_minimiser(y, tau_index, matrix),
               lambda: recheck_minimiser(y, tau_index, matrix))


def run_minimiser(res, n, prefix):
    y = None
    for rest in itertools.product(VALUES, repeat=n - len(prefix)):
        y = prefix + rest
        minimiser_cases(res, y, dict(part="minimiser", y=y))
    res.sample(dict(part="minimiser", y=y, taus=MIN_TAUS,
                    candidates=candidates(y)))


# ---------------------------------------------------------------- large

LARGE_LAYOUTS = [(2, 1, "array")]


def large_sample(n):
    """n dyadic values with heavy tails (magnitudes 1 .. 2^16, every octave
    equally likely), both signs, ties, and distinct values at least 1
    apart (so that the mean losses of neighbouring constants differ by far
    more than the rounding of a sum of n terms)."""
    def value(i):
        e = i % 16
        r = min(64, 2 ** e)
        return (-1.0) ** (i % 3) * 2.0 ** e * (1 + (i // 48 % 61 % r) / r)
    return tuple(value(i) for i in range(n))


def shifted(y):
    """Estimates (n, 7): column j is the sample rotated by j places (column
    0 coincides with the observations)."""
    return tuple(tuple(y[(i + j) % len(y)] for j in range(len(MIN_TAUS)))
                 for i in range(len(y)))


def check_large(y):
    return check_documented(y, shifted(y), MIN_TAUS, LARGE_LAYOUTS,
                            ALL_DTYPES)


def run_large(res, n):
    y = large_sample(n)
    minimiser_cases(res, y, dict(part="large-minimiser", n=n))
    res.case(nontrivial=True)
    case = dict(part="large-pointwise", n=n)
    report(res, case, check_large(y), lambda: check_large(y))
    res.sample(dict(part="large", n=n, distinct=len(multiplicities(y)),
                    candidates=candidates(y)))


# ------------------------------------------------------------ pointwise

def pointwise_shapes(tier):
    side = 3 if tier == "quick" else 4
    return [(n, k) for n in range(1, side + 1) for k in range(1, side + 1)
            if n * k <= 4]


def rows(flat, k):
    return tuple(tuple(flat[i:i + k]) for i in range(0, len(flat), k))


def run_pointwise(res, n, k, prefix):
    """Cases whose values (observations, then estimates row by row) start
    with prefix."""
    case = None
    for rest in itertools.product(VALUES, repeat=n + n * k - len(prefix)):
        y, est = (prefix + rest)[:n], rows((prefix + rest)[n:], k)
        differs = any(est[i][j] != y[i] for i in range(n) for j in range(k))
        for taus in itertools.chain(
                itertools.product(TAUS, repeat=k),
                itertools.product(EXTREME_TAUS, repeat=k)):
            res.case(nontrivial=differs)
            case = dict(part="pointwise", y=y, est=est, taus=taus)
            report(res, case, check_documented(y, est, taus),
                   lambda: check_documented(y, est, taus))
    res.sample(case)


# --------------------------------------------------------------- scaled

def scaled_shapes(tier):
    return [(n, k) for n, k in pointwise_shapes(tier)
            if n * k <= (2 if tier == "quick" else 3)]


def check_scaled(y, est, taus, scale):
    """The case with every value multiplied by scale, in the first and the
    last layout, in the first one as every dtype that holds the values."""
    every = layouts(len(taus))
    return check_documented(
        tuple(v * scale for v in y),
        tuple(tuple(v * scale for v in row) for row in est), taus,
        [every[0], every[-1]], ALL_DTYPES)


def run_scaled(res, n, k, prefix):
    case = None
    for rest in itertools.product(VALUES, repeat=n + n * k - len(prefix)):
        y, est = (prefix + rest)[:n], rows((prefix + rest)[n:], k)
        differs = any(est[i][j] != y[i] for i in range(n) for j in range(k))
        # zeros only: every factor gives the same case
        scales = SCALED if any(prefix + rest) else SCALED[:1]
        for taus, scale in itertools.product(
                itertools.chain(itertools.product(TAUS, repeat=k),
                                itertools.product(EXTREME_TAUS, repeat=k)),
                scales):
            res.case(nontrivial=differs)
            case = dict(part="scaled", y=y, est=est, taus=taus, scale=scale)
            report(res, case, check_scaled(y, est, taus, scale),
                   lambda: check_scaled(y, est, taus, scale))
    res.sample(case)


# --------------------------------------------------------------- shapes

SIDES = (1, 2, 3, 4)
Y_TAU_SHAPES = [(a,) for a in SIDES] + [(a, b) for a in SIDES for b in SIDES]
Y_TEST_SHAPES = [(a,) for a in SIDES] + [(a, 1) for a in SIDES] + \
    [(a, 2) for a in SIDES]
TAU_FORMS = [("scalar", 1)] + [(f, b) for f in ("list", "array")
                               for b in SIDES]


def classify(tshape, yshape, form, k):
    """'documented', 'inconsistent' or 'unspecified'."""
    n = yshape[0]
    if math.prod(tshape) != math.prod(yshape) * k:
        return "inconsistent"
    if yshape in ((n,), (n, 1)) and \
            (tshape == (n, k) or (k == 1 and tshape == (n,))):
        return "documented"
    return "unspecified"


def fillings(n, k):
    """125 (y, est, taus) fillings whose values vary along both axes."""
    for r, s, u in itertools.product(range(5), repeat=3):
        y = tuple(VALUES[(i + r) % 5] for i in range(n))
        est = tuple(tuple(VALUES[(2 * i + j + s) % 5] for j in range(k))
                    for i in range(n))
        taus = tuple(TAUS[(j + u) % 5] for j in range(k))
        yield y, est, taus


def check_inconsistent(tshape, yshape, form, k):
    t = dict(scalar=0.25, list=list(TAUS[:k]), array=np.array(TAUS[:k]))[form]
    for func in JUDGES:
        try:
            out = call(func, np.ones(tshape), np.zeros(yshape), t)
        except ValueError:
            continue
        except Exception as exc:
            return ("shapes/%s-raises-%s-not-ValueError"
                    % (func, type(exc).__name__), "ValueError",
                    repr(exc)[:200], "")
        return ("shapes/%s-accepts-inconsistent-sizes" % func, "ValueError",
                "result of shape %r" % (np.shape(out),), "")
    return None


def run_shapes(res, tshape):
    case = None
    for yshape, (form, k) in itertools.product(Y_TEST_SHAPES, TAU_FORMS):
        kind = classify(tshape, yshape, form, k)
        if kind == "unspecified":
            res.case(nontrivial=False)
            res.count("unspecified_shape_combinations")
        elif kind == "inconsistent":
            res.case(nontrivial=True)
            case = dict(part="shapes", y_tau=tshape, y_test=yshape,
                        taus=form, k=k)
            report(res, case, check_inconsistent(tshape, yshape, form, k),
                   lambda: check_inconsistent(tshape, yshape, form, k))
        else:
            layout = (len(tshape), len(yshape), form)
            for y, est, taus in fillings(yshape[0], k):
                res.case(nontrivial=True)
                case = dict(part="documented", y=y, est=est, taus=taus,
                            layout=layout)
                report(res, case, check_documented(y, est, taus, [layout]),
                       lambda: check_documented(y, est, taus, [layout]))
    res.sample(case)


# --------------------------------------------------------------- driver

def report(res, case, bad, again):
    if bad is None:
        return
    if bad[0] == "HARNESS":
        res.error("%s in %r" % (bad[1], case))
    elif again() != bad:
        res.error("NONDETERMINISM in %r" % (case,))
    else:
        res.violation(bad[0], case, *bad[1:])


def shards(tier, seed):
    out = []
    for n in range(1, (5 if tier == "quick" else 6) + 1):
        out.extend(("minimiser", n, prefix) for prefix in
                   itertools.product(VALUES, repeat=min(2, n)))
    for n, k in pointwise_shapes(tier):
        out.extend(("pointwise", n, k, prefix) for prefix in
                   itertools.product(VALUES, repeat=min(3, n + n * k)))
    for n, k in scaled_shapes(tier):
        out.extend(("scaled", n, k, prefix) for prefix in
                   itertools.product(VALUES, repeat=min(3, n + n * k)))
    out.extend(("shapes", tshape) for tshape in Y_TAU_SHAPES)
    out.extend(("large", n) for n in LARGE_SIZES)
    out.extend(c19_percent.shards(tier))
    return out


def run_shard(shard):
    res = driver.ShardResult()
    before = CALLS[0]
    if shard[0] == "minimiser":
        run_minimiser(res, *shard[1:])
    elif shard[0] == "pointwise":
        run_pointwise(res, *shard[1:])
    elif shard[0] == "scaled":
        run_scaled(res, *shard[1:])
    elif shard[0] == "shapes":
        run_shapes(res, shard[1])
    elif shard[0] == "large":
        run_large(res, shard[1])
    else:
        c19_percent.run_shard(res, shard, report)
    res.count("quantile_score_calls", CALLS[0] - before)
    return res


def as_tuple(x):
    return tuple(as_tuple(v) for v in x) if isinstance(x, list) else x


def replay(case):
    case = {k: as_tuple(v) for k, v in case.items()}
    part = case["part"]
    if part == "minimiser":
        bad = check_minimiser(case["y"], case["tau_index"], case["matrix"])
    elif part == "large-minimiser":
        bad = check_minimiser(large_sample(case["n"]), case["tau_index"],
                              case["matrix"])
    elif part == "large-pointwise":
        bad = check_large(large_sample(case["n"]))
    elif part == "pointwise":
        bad = check_documented(case["y"], case["est"], case["taus"])
    elif part == "documented":
        bad = check_documented(case["y"], case["est"], case["taus"],
                               [case["layout"]])
    elif part == "scaled":
        bad = check_scaled(case["y"], case["est"], case["taus"],
                           case["scale"])
    elif part == "shapes":
        bad = check_inconsistent(case["y_tau"], case["y_test"], case["taus"],
                                 case["k"])
    else:
        bad = c19_percent.replay(case)
    if bad is None:
        return dict(ok=True)
    return dict(ok=False, key=bad[0], expected=bad[1], observed=bad[2],
                msg=bad[3])


if __name__ == "__main__":
    driver.main(sys.modules[__name__])
