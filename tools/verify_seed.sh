#!/bin/bash
# tools/verify_seed.sh <seed-name> <property> <dir with patch.diff demo.py notes.md> [check-module ...]
# Confirms a seeded change independently in a scratch worktree of /repo HEAD:
#   demo passes without / fails with the patch, pinned suite still passes, then runs the checks.
# On success stores it as /verif/seeded/<seed-name>/ and removes the worktree.
set -u
name="$1"; prop="$2"; src="$3"; shift 3
checks="$*"
VERIF="$(cd "$(dirname "$0")/.." && pwd)"
wt=/dev/shm/seedv-$name
git -C /repo worktree remove --force "$wt" 2>/dev/null
git -C /repo worktree add -q --detach "$wt" HEAD || exit 2
mkdir -p "$wt/_seed"; cp "$src/patch.diff" "$src/demo.py" "$wt/_seed/"; [ -f "$src/notes.md" ] && cp "$src/notes.md" "$wt/_seed/"
cd "$wt"
before=$(/venv/bin/python _seed/demo.py 2>&1 | tail -3); rc_before=$?
/venv/bin/python _seed/demo.py >/dev/null 2>&1; rc_before=$?
if ! git apply --whitespace=nowarn _seed/patch.diff 2>/tmp/apply.err; then echo "PATCH DOES NOT APPLY: $(cat /tmp/apply.err | head -3)"; git -C /repo worktree remove --force "$wt"; exit 2; fi
/venv/bin/python _seed/demo.py > /tmp/demo_after.out 2>&1; rc_after=$?
echo "demo: before rc=$rc_before, after rc=$rc_after ($(grep -c FAIL /tmp/demo_after.out) FAIL lines)"
"$VERIF/tools/baseline.sh" "$wt"; rc_base=$?
results=""
for c in $checks; do
  out=$(cd "$VERIF" && VERIF_REPO="$wt" VERIF_EVIDENCE_DIR=/dev/shm/seedv-ev-$name ./run.sh "$c" quick 2>&1); rc=$?
  keys=$(echo "$out" | grep -o "key=[^ ]*" | sort -u | head -4 | tr '\n' ' ')
  echo "check $c: rc=$rc $keys"
  results="$results $c:rc=$rc"
done
rm -rf /dev/shm/seedv-ev-$name
if [ $rc_before -eq 0 ] && [ $rc_after -ne 0 ] && [ $rc_base -eq 0 ]; then
  mkdir -p "$VERIF/seeded/$name"
  cp _seed/patch.diff _seed/demo.py "$VERIF/seeded/$name/"; [ -f _seed/notes.md ] && cp _seed/notes.md "$VERIF/seeded/$name/"
  python3 - "$VERIF/seeded/$name/meta.json" "$prop" "$name" "$results" "$checks" <<'PY'
import json,sys,subprocess
path,prop,name,results,checks=sys.argv[1:6]
head=subprocess.run(["git","-C","/repo","rev-parse","--short","HEAD"],capture_output=True,text=True).stdout.strip()
try: old=json.load(open(path))
except Exception: old={}
old.update({"property":prop,"name":name,"checks":checks.split(),"confirmed_on_repo_head":head,
 "what_i_ran":"scratch worktree of /repo HEAD: demo.py (exit 0 before), git apply patch.diff, demo.py (exit 1 after), tools/baseline.sh (117/117 stable tests still pass), then ./run.sh <check> quick with VERIF_REPO=<worktree>",
 "check_results":results.split()})
json.dump(old,open(path,"w"),indent=1)
PY
  echo "STORED seeded/$name"
else
  echo "NOT CONFIRMED (before=$rc_before after=$rc_after baseline=$rc_base)"
fi
cd /; git -C /repo worktree remove --force "$wt"
