#!/usr/bin/env python3
"""Regenerates the table of seeded changes in DESIGN.md (between the markers
<!-- seeded-table-begin --> and <!-- seeded-table-end -->) from seeded/*/meta.json."""
import glob, json, os
HERE = os.path.dirname(os.path.dirname(os.path.abspath(__file__)))
rows = []
missed = 0
for d in sorted(glob.glob(os.path.join(HERE, "seeded", "*"))):
    m = json.load(open(os.path.join(d, "meta.json")))
    hist = m.get("history")
    first = "caught"
    how = ""
    if hist:
        first = "**missed**"
        missed += 1
        how = hist.split("Strengthened:", 1)[-1].strip() if "Strengthened:" in hist else hist
    rows.append("| %s | %s | %s | %s | %s |" % (
        m["name"], m["property"], m.get("needs_to_manifest", "").replace("|", "/"),
        first, how.replace("|", "/")))
table = ("| seeded change | property | needs, in order to manifest | first run | what was strengthened (now caught) |\n"
         "|---|---|---|---|---|\n" + "\n".join(rows) +
         "\n\n%d seeded changes, %d missed by the version of the check that existed when the change arrived; "
         "all %d are reported as VIOLATION by the quick tier now (`python3 tools/run_mutants.py seeded/`).\n" % (
             len(rows), missed, len(rows)))
p = os.path.join(HERE, "DESIGN.md")
s = open(p).read()
b, e = "<!-- seeded-table-begin -->", "<!-- seeded-table-end -->"
if b in s:
    i, j = s.index(b) + len(b), s.index(e)
    s = s[:i] + "\n" + table + s[j:]
    open(p, "w").write(s)
    print("table updated:", len(rows), "rows,", missed, "missed at first")
else:
    print(table)
