#!/bin/bash
# tools/run_all.sh [quick|thorough] : runs every registered check, one line per check
cd "$(dirname "$0")/.."
tier="${1:-quick}"
rc_all=0
for m in $(python3 -c "import json;print(' '.join(c['module'] for c in json.load(open('tools/checks.json'))['checks']))"); do
  s=$(date +%s)
  out=$(./run.sh "$m" "$tier" 2>&1); rc=$?
  e=$(date +%s)
  echo "$m rc=$rc $((e-s))s $(echo "$out" | grep -c '^VIOLATION') violations $(echo "$out" | grep -c '^KNOWN-FINDING') known"
  [ $rc -ne 0 ] && { rc_all=1; echo "$out" | grep -E "^VIOLATION|HARNESS|key=" | head -5; }
done
exit $rc_all
