#!/bin/bash
# Runs the pinned test-suite of /repo (guard off) and compares with BASELINE.json's stable_pass list.
# usage: tools/baseline.sh [repo-dir]
REPO="${1:-/repo}"
OUT=$(mktemp /dev/shm/junit.XXXXXX.xml)
cd "$REPO" && env -u TYPHON_VERIF /venv/bin/python -m pytest -ra -q -p no:cacheprovider --timeout=900 --continue-on-collection-errors --junitxml="$OUT" >/dev/null 2>&1
/venv/bin/python - "$OUT" <<'PY'
import json,sys,xml.etree.ElementTree as ET
base=json.load(open('/root/.vp/BASELINE.json'))
stable=set(base['stable_pass'])
root=ET.parse(sys.argv[1]).getroot()
passed=set()
for tc in root.iter('testcase'):
    name=tc.get('classname')+'::'+tc.get('name')
    if not any(ch.tag in('failure','error','skipped') for ch in tc):
        passed.add(name)
missing=sorted(stable-passed)
print("baseline: %d/%d stable tests pass; newly passing: %d"%(len(stable&passed),len(stable),len(passed-stable)))
for m in missing: print("  MISSING",m)
sys.exit(1 if missing else 0)
PY
rc=$?
rm -f "$OUT"
exit $rc
