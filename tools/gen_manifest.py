"""Generates /verif/MANIFEST.json from the table below (python3 tools/gen_manifest.py)."""
import json, os
HERE = os.path.dirname(os.path.dirname(os.path.abspath(__file__)))
CHECKS = json.load(open(os.path.join(HERE, "tools", "checks.json")))
props = [json.loads(l)["id"] for l in open(os.path.join(HERE, "properties.jsonl"))]
man = {
 "version": 1,
 "setup_cmd": "mkdir -p evidence replays && /venv/bin/python -c 'import typhon, numpy' && python3-vt -c 'import jsonschema'",
 "hooks": {
  "guard": "TYPHON_VERIF",
  "enable": "No source-level hooks exist: every environment seam (pools, processes, queues, open/json/shutil, numpy.random.shuffle, SRTM30.get_tile) is a module-level name that the harness rebinds at run time. run.sh exports TYPHON_VERIF=1 for uniformity; typhon never reads it.",
  "baseline_off_cmd": "cd /repo && /venv/bin/python -m pytest -ra -q -p no:cacheprovider --timeout=900 --continue-on-collection-errors",
  "source_commits": [],
  "add_only": True
 },
 "engines": [
  {"name": "mc", "path": "mc/", "serves_properties": [c["property_id"] for c in CHECKS["checks"]],
   "kind_free_text": "hand-written Python explorer: re-execution with choice points and deviation bounds (mc/explorer.py), controlled executor / process+queue scheduler / fault injector as environment models, sharded exhaustive enumeration driver (mc/driver.py)"}
 ],
 "checks": [],
 "not_applicable": [],
 "notes": "Every check: ./run.sh <module> quick|thorough; exit 0 held / 1 VIOLATION / 2 harness error. Evidence is validated against the schema by run.sh. See DESIGN.md."
}
claimed = set()
for c in CHECKS["checks"]:
    pid = c["property_id"]; claimed.add(pid)
    man["checks"].append({
     "property_id": pid,
     "quick_cmd": "./run.sh %s quick" % c["module"],
     "thorough_cmd": "./run.sh %s thorough" % c["module"],
     "evidence_file": "evidence/%s.json" % pid,
     "replay_cmd_template": "./run.sh %s --replay {path}" % c["module"],
     "engine": "mc",
     "level_claimed": {"category": c["level"], "text": c["text"], "design_ref": "DESIGN.md section 3, " + pid},
     "level_note": c["note"],
     "technique": c["technique"],
    })
for pid in props:
    if pid not in claimed:
        man["not_applicable"].append({"property_id": pid, "reason": CHECKS["pending"].get(pid, "check not built yet in this round (planned, see DESIGN.md section 3); not claimed until it runs")})
json.dump(man, open(os.path.join(HERE, "MANIFEST.json"), "w"), indent=1)
print("checks:", sorted(claimed), "not claimed:", [p for p in props if p not in claimed])
