#!/usr/bin/env python3
"""Detection demonstrations: applies each mutant of mutants/*.json (a textual
replacement in one file of a scratch copy of /repo/typhon) and each seeded
patch of seeded/*/patch.diff, runs the named check's quick tier against the
scratch copy (VERIF_REPO) and reports whether it printed VIOLATION.

usage: tools/run_mutants.py [-j N] [--tier quick] [name-substring ...]
Nothing under /repo is touched. Evidence files are restored afterwards.
"""
import glob
import json
import os
import shutil
import subprocess
import sys
import tempfile
from concurrent.futures import ThreadPoolExecutor

VERIF = os.path.dirname(os.path.dirname(os.path.abspath(__file__)))
REPO = os.environ.get("VERIF_BASE_REPO", "/repo")


def load():
    out = []
    for path in sorted(glob.glob(os.path.join(VERIF, "mutants", "*.json"))):
        with open(path) as f:
            for m in json.load(f):
                m["src"] = os.path.basename(path)
                out.append(m)
    for d in sorted(glob.glob(os.path.join(VERIF, "seeded", "*"))):
        meta = os.path.join(d, "meta.json")
        if os.path.exists(meta):
            with open(meta) as f:
                m = json.load(f)
            out.append(dict(id="seeded/" + os.path.basename(d),
                            property=m["property"], patch=os.path.join(
                                d, "patch.diff"),
                            checks=m.get("checks", [m["property"]]),
                            src="seeded"))
    return out


def run_one(m, tier, jobs):
    base = "/dev/shm" if os.access("/dev/shm", os.W_OK) else None
    tmp = tempfile.mkdtemp(prefix="mut-", dir=base)
    try:
        shutil.copytree(os.path.join(REPO, "typhon"),
                        os.path.join(tmp, "typhon"),
                        ignore=shutil.ignore_patterns("__pycache__", "tests"))
        if "patch" in m:
            r = subprocess.run(["patch", "-p1", "-s", "-d", tmp, "-i",
                                m["patch"]], capture_output=True, text=True)
            if r.returncode:
                return m, "PATCH-FAILED " + r.stdout[-200:] + r.stderr[-200:]
        else:
            path = os.path.join(tmp, m["file"])
            with open(path) as f:
                src = f.read()
            if src.count(m["old"]) != 1:
                return m, "ANCHOR-NOT-UNIQUE (%d)" % src.count(m["old"])
            with open(path, "w") as f:
                f.write(src.replace(m["old"], m["new"]))
        results = []
        for check in m["checks"]:
            evdir = tempfile.mkdtemp(prefix="ev-", dir=base)
            env = dict(os.environ, VERIF_REPO=tmp, VERIF_EVIDENCE_DIR=evdir,
                       VERIF_JOBS=str(jobs))
            r = subprocess.run([os.path.join(VERIF, "run.sh"), check, tier],
                               capture_output=True, text=True, env=env,
                               cwd=VERIF)
            shutil.rmtree(evdir, ignore_errors=True)
            vio = [l for l in r.stdout.splitlines()
                   if l.startswith("VIOLATION")]
            keys = [l.strip() for l in r.stderr.splitlines()
                    if l.strip().startswith("key=")]
            results.append((check, r.returncode, len(vio), keys[:2]))
        return m, results
    finally:
        shutil.rmtree(tmp, ignore_errors=True)


def main():
    args = sys.argv[1:]
    tier, par, jobs = "quick", 4, 4
    names = []
    while args:
        a = args.pop(0)
        if a == "--tier":
            tier = args.pop(0)
        elif a == "-j":
            par = int(args.pop(0))
        elif a == "--jobs":
            jobs = int(args.pop(0))
        else:
            names.append(a)
    muts = [m for m in load()
            if not names or any(n in m["id"] or n == m["property"]
                                for n in names)]
    missed = 0
    with ThreadPoolExecutor(par) as ex:
        for m, out in ex.map(lambda m: run_one(m, tier, jobs), muts):
            if isinstance(out, str):
                print("%-40s %s" % (m["id"], out))
                missed += 1
                continue
            caught = any(rc == 1 and n for _, rc, n, _ in out)
            broken = any(rc == 2 for _, rc, n, _ in out)
            print("%-40s %s %s" % (
                m["id"], "CAUGHT" if caught else
                ("HARNESS-ERROR" if broken else "MISSED"),
                "; ".join("%s rc=%d %s" % (c, rc, " ".join(k))
                          for c, rc, n, k in out)))
            sys.stdout.flush()
            if not caught:
                missed += 1
    print("mutants: %d, not caught: %d" % (len(muts), missed))
    sys.exit(1 if missed else 0)


if __name__ == "__main__":
    main()
