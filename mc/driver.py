"""Common driver: sharding over worker processes, violation handling, known
findings, replay artefacts and evidence files.

A check module defines

    PROP        = "C03"
    LEVEL       = "exploration" | "fault_enumeration" | "model_checking"
    RULE        = "how cases are enumerated / what counts as non-trivial"
    ASSUMPTIONS = [...]
    def shards(tier, seed) -> list            # picklable shard descriptors
    def run_shard(shard)   -> ShardResult     # executes every case of the shard
    def replay(case)       -> dict            # re-executes one recorded case
    def finish(tier, merged) -> dict          # optional: extra coverage keys /
                                              # conformance runs in the parent

and ends with ``if __name__ == "__main__": driver.main(sys.modules[__name__])``.
"""

import hashlib
import json
import multiprocessing as mp
import multiprocessing.pool
import os
import random
import shutil
import sys
import tempfile
import time
import traceback

VERIF = os.path.dirname(os.path.dirname(os.path.abspath(__file__)))

# --------------------------------------------------------------------------
# environment
# --------------------------------------------------------------------------

def setup_env():
    """Called before typhon (or numpy) is imported."""
    os.environ.setdefault("OMP_NUM_THREADS", "1")
    os.environ.setdefault("OPENBLAS_NUM_THREADS", "1")
    os.environ.setdefault("MKL_NUM_THREADS", "1")
    os.environ.setdefault("NUMEXPR_NUM_THREADS", "1")
    os.environ.setdefault("NUMBA_NUM_THREADS", "1")
    os.environ.setdefault("PYTHONDONTWRITEBYTECODE", "1")
    sys.dont_write_bytecode = True
    repo = os.environ.get("VERIF_REPO")
    if repo:
        sys.path.insert(0, repo)
    import warnings
    warnings.filterwarnings("ignore", category=SyntaxWarning)
    import logging
    logging.disable(logging.CRITICAL)


_scratch_root = None


def scratch_root():
    """Per-process scratch directory on tmpfs, removed at exit."""
    global _scratch_root
    if _scratch_root is None or not os.path.isdir(_scratch_root) \
            or _scratch_root_pid != os.getpid():
        _make_scratch()
    return _scratch_root


_scratch_root_pid = None


def _make_scratch():
    global _scratch_root, _scratch_root_pid
    base = "/dev/shm" if os.access("/dev/shm", os.W_OK) else \
        tempfile.gettempdir()
    _scratch_root = tempfile.mkdtemp(prefix="verif-%d-" % os.getpid(),
                                     dir=base)
    _scratch_root_pid = os.getpid()
    import atexit
    pid = os.getpid()
    path = _scratch_root

    def _cleanup():
        if os.getpid() == pid:
            shutil.rmtree(path, ignore_errors=True)
    atexit.register(_cleanup)


def fresh_dir(name="d"):
    d = tempfile.mkdtemp(prefix=name + "-", dir=scratch_root())
    return d


# --------------------------------------------------------------------------
# shard results
# --------------------------------------------------------------------------

class ShardResult:
    """Accumulates what one shard covered. Picklable."""

    MAX_PER_KEY = 3
    MAX_SAMPLES = 3

    def __init__(self):
        self.evaluations = 0
        self.nontrivial = 0          # distinct by construction of the shard
        self.nontrivial_hashes = set()   # or: hashes, unioned by the parent
        self.samples = []
        self.violations = []         # dicts: key, case, expected, observed
        self.vio_per_key = {}
        self.counters = {}           # summed
        self.sets = {}               # unioned (sizes reported)
        self.maxima = {}             # max-merged
        self.flags = {}              # and-merged booleans (e.g. exhaustive)
        self.errors = []             # harness errors (exit 2)
        self.slowest = (0.0, "")

    def case(self, nontrivial=False, key=None):
        self.evaluations += 1
        if nontrivial:
            if key is None:
                self.nontrivial += 1
            else:
                self.nontrivial_hashes.add(h64(key))

    def sample(self, s):
        if len(self.samples) < self.MAX_SAMPLES:
            self.samples.append(jsonable(s))

    def count(self, name, n=1):
        self.counters[name] = self.counters.get(name, 0) + n

    def add(self, name, item):
        self.sets.setdefault(name, set()).add(item)

    def maximum(self, name, v):
        if v > self.maxima.get(name, float("-inf")):
            self.maxima[name] = v

    def flag(self, name, v):
        self.flags[name] = self.flags.get(name, True) and bool(v)

    def violation(self, key, case, expected=None, observed=None, msg=""):
        n = self.vio_per_key.get(key, 0)
        self.vio_per_key[key] = n + 1
        if n < self.MAX_PER_KEY:
            self.violations.append(dict(
                key=key, case=jsonable(case), expected=jsonable(expected),
                observed=jsonable(observed), msg=msg))

    def error(self, msg):
        if len(self.errors) < 5:
            self.errors.append(msg)

    def merge(self, other):
        self.evaluations += other.evaluations
        self.nontrivial += other.nontrivial
        self.nontrivial_hashes |= other.nontrivial_hashes
        for s in other.samples:
            if len(self.samples) < 8:
                self.samples.append(s)
        for v in other.violations:
            self.violations.append(v)
        for k, n in other.vio_per_key.items():
            self.vio_per_key[k] = self.vio_per_key.get(k, 0) + n
        for k, n in other.counters.items():
            self.counters[k] = self.counters.get(k, 0) + n
        for k, s in other.sets.items():
            self.sets.setdefault(k, set()).update(s)
        for k, v in other.maxima.items():
            self.maximum(k, v)
        for k, v in other.flags.items():
            self.flag(k, v)
        self.errors.extend(other.errors)
        if other.slowest[0] > self.slowest[0]:
            self.slowest = other.slowest


def h64(obj):
    return int.from_bytes(
        hashlib.blake2b(repr(obj).encode(), digest_size=8).digest(), "big")


def jsonable(o, depth=0):
    import datetime
    if depth > 12:
        return repr(o)
    if o is None or isinstance(o, (bool, int, str)):
        return o
    if isinstance(o, float):
        if o != o or o in (float("inf"), float("-inf")):
            return repr(o)
        return o
    if isinstance(o, dict):
        return {str(k): jsonable(v, depth + 1) for k, v in o.items()}
    if isinstance(o, (list, tuple)):
        return [jsonable(v, depth + 1) for v in o]
    if isinstance(o, (set, frozenset)):
        return sorted((jsonable(v, depth + 1) for v in o), key=repr)
    if isinstance(o, (datetime.datetime, datetime.date)):
        return o.isoformat()
    if isinstance(o, datetime.timedelta):
        return "timedelta(%r s)" % o.total_seconds()
    try:
        import numpy as np
        if isinstance(o, np.generic):
            return jsonable(o.item(), depth + 1)
        if isinstance(o, np.ndarray):
            if o.size > 200:
                return "ndarray%s %s" % (o.shape, o.dtype)
            return jsonable(o.tolist(), depth + 1)
    except ImportError:
        pass
    return repr(o)


# --------------------------------------------------------------------------
# known findings
# --------------------------------------------------------------------------

def load_known():
    path = os.path.join(VERIF, "known_findings.json")
    if not os.path.exists(path):
        return []
    with open(path) as f:
        return json.load(f)["findings"]


# --------------------------------------------------------------------------
# main
# --------------------------------------------------------------------------

class _NoDaemonProcess(mp.get_context("fork").Process):
    """Shard workers may start real process pools (conformance runs)."""
    @property
    def daemon(self):
        return False

    @daemon.setter
    def daemon(self, value):
        pass


class _NoDaemonContext(type(mp.get_context("fork"))):
    Process = _NoDaemonProcess


class NestablePool(mp.pool.Pool):
    def __init__(self, *args, **kwargs):
        kwargs["context"] = _NoDaemonContext()
        super().__init__(*args, **kwargs)


class ShardTimeout(BaseException):
    pass


def _run_shard_wrapper(args):
    module_name, shard = args
    mod = sys.modules.get(module_name) or __import__(
        module_name, fromlist=["x"])
    t0 = time.time()
    # watchdog: a hanging shard (e.g. code under test blocking on a real
    # lock that the environment model does not own) is a harness error
    import signal
    limit = int(os.environ.get("VERIF_SHARD_TIMEOUT", "1500"))

    def on_alarm(signum, frame):
        # not an Exception: a harness that turns exceptions of the code
        # under test into observations must not swallow the watchdog
        raise ShardTimeout("shard exceeded %d s" % limit)
    old_handler = signal.signal(signal.SIGALRM, on_alarm)
    signal.alarm(limit)
    try:
        res = mod.run_shard(shard)
    except BaseException:
        res = ShardResult()
        res.error("shard %s crashed:\n%s" % (repr(shard)[:300],
                                             traceback.format_exc()))
    finally:
        signal.alarm(0)
        signal.signal(signal.SIGALRM, old_handler)
    res.maxima["shard_wall_s"] = time.time() - t0
    res.slowest = (time.time() - t0, repr(shard)[:120])
    return res


def main(mod, argv=None):
    argv = list(sys.argv[1:] if argv is None else argv)
    prop = mod.PROP
    if argv and argv[0] == "--replay":
        with open(argv[1]) as f:
            art = json.load(f)
        out = mod.replay(art["case"])
        print(json.dumps(jsonable(out), indent=1, default=repr))
        sys.exit(0 if out.get("ok") else 1)

    tier = os.environ.get("VERIF_TIER") or (argv[0] if argv else "quick")
    if argv and argv[0] in ("quick", "thorough"):
        tier = argv[0]
    seed = int(os.environ.get("VERIF_SEED", "0") or 0)
    nproc = int(os.environ.get("VERIF_JOBS", "0") or 0) or \
        min(16, os.cpu_count() or 1)
    nproc = min(nproc, getattr(mod, "JOBS", nproc))   # memory-bound checks
    t0 = time.time()

    shards = list(mod.shards(tier, seed))
    # The seed only permutes the order in which shards are handed out.
    random.Random(seed).shuffle(shards)
    merged = ShardResult()
    modname = mod.__name__ if mod.__name__ != "__main__" else \
        "checks." + os.path.splitext(os.path.basename(mod.__file__))[0]
    if modname not in sys.modules:
        sys.modules[modname] = mod
    tasks = [(modname, s) for s in shards]
    if nproc == 1 or len(tasks) <= 1:
        for t in tasks:
            merged.merge(_run_shard_wrapper(t))
    else:
        with NestablePool(min(nproc, len(tasks)),
                          maxtasksperchild=getattr(mod, "MAXTASKS", None)
                          ) as pool:
            for res in pool.imap_unordered(_run_shard_wrapper, tasks,
                                           chunksize=1):
                merged.merge(res)

    extra = {}
    if hasattr(mod, "finish"):
        try:
            extra = mod.finish(tier, merged) or {}
        except Exception:
            merged.error("finish() crashed:\n" + traceback.format_exc())

    # ---- classify violations
    known = [k for k in load_known() if k["property"] == prop]
    open_keys = {k["key"]: k for k in known if k["status"] == "open"}
    by_key = {}
    for v in merged.violations:
        by_key.setdefault(v["key"], []).append(v)
    exit_code = 0
    # mutant runs (tools/run_mutants.py) redirect evidence and replays
    outdir = os.environ.get("VERIF_EVIDENCE_DIR")
    replay_dir = os.path.join(outdir, "replays") if outdir else \
        os.path.join(VERIF, "replays")
    evidence_dir = outdir or os.path.join(VERIF, "evidence")
    os.makedirs(replay_dir, exist_ok=True)
    new_violations = 0
    for key in sorted(by_key):
        vs = by_key[key]
        if key in open_keys:
            print("KNOWN-FINDING: property=%s %s [%s; %d case(s) this run]" % (
                prop, open_keys[key]["what"], key,
                merged.vio_per_key.get(key, len(vs))))
            continue
        v = min(vs, key=lambda x: len(json.dumps(x["case"], default=repr)))
        name = "%s-%s.json" % (prop, hashlib.sha1(json.dumps(
            [key, v["case"]], sort_keys=True, default=repr).encode()
        ).hexdigest()[:12])
        path = os.path.join(replay_dir, name)
        with open(path, "w") as f:
            json.dump(dict(property=prop, check=modname, **v), f, indent=1,
                      default=repr)
        print("VIOLATION property=%s replay=%s" % (prop, path))
        print("  key=%s cases=%d %s" % (key, merged.vio_per_key.get(key, 0),
                                        v.get("msg", "")), file=sys.stderr)
        print("  case=%s\n  expected=%s\n  observed=%s" % (
            json.dumps(v["case"], default=repr)[:600],
            json.dumps(v["expected"], default=repr)[:400],
            json.dumps(v["observed"], default=repr)[:400]), file=sys.stderr)
        new_violations += merged.vio_per_key.get(key, len(vs))
        exit_code = 1
    if merged.errors:
        for e in merged.errors[:5]:
            print("HARNESS-ERROR property=%s %s" % (prop, e), file=sys.stderr)
        # a violation that was reproduced on re-execution stands on its own;
        # harness errors alone make the run inconclusive
        if exit_code == 0:
            exit_code = 2

    # ---- evidence
    nontrivial = merged.nontrivial + len(merged.nontrivial_hashes)
    coverage = dict(
        evaluations=merged.evaluations,
        distinct_nontrivial=nontrivial,
        rule=mod.RULE,
        samples=merged.samples[:8],
        exhaustive=bool(merged.flags.pop("exhaustive", True))
        and not merged.errors,
        shards=len(shards),
    )
    for k, v in sorted(merged.counters.items()):
        if not k.startswith("_"):
            coverage[k] = v
    for k, s in sorted(merged.sets.items()):
        coverage["distinct_" + k] = len(s)
    for k, v in sorted(merged.maxima.items()):
        coverage["max_" + k] = round(v, 3) if isinstance(v, float) else v
    for k, v in sorted(merged.flags.items()):
        coverage[k] = v
    coverage.update(extra)
    coverage["slowest_shard"] = merged.slowest[1]
    coverage["known_findings_seen"] = sorted(
        k for k in by_key if k in open_keys)
    ev = dict(property_id=prop, tier=tier, seed=seed, level=mod.LEVEL,
              coverage=coverage, assumptions=list(mod.ASSUMPTIONS),
              wall_s=round(time.time() - t0, 2), violations=new_violations)
    os.makedirs(evidence_dir, exist_ok=True)
    evpath = os.path.join(evidence_dir, prop + ".json")
    with open(evpath + ".tmp", "w") as f:
        json.dump(ev, f, indent=1, default=repr)
    os.replace(evpath + ".tmp", evpath)
    summary = {k: v for k, v in coverage.items()
               if k not in ("samples", "rule")}
    print("%s %s: %s wall=%.1fs exit=%d" % (
        prop, tier, json.dumps(summary, default=repr), time.time() - t0,
        exit_code))
    sys.stdout.flush()
    sys.exit(exit_code)
