"""Model-checking machinery for the typhon properties (see /verif/DESIGN.md)."""
