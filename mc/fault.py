"""Fault / crash-point enumeration by re-execution.

A history is a deterministic callable ``run(plan)``. Every environment step it
performs through an instrumented seam calls ``plan.point(label)``. The first
execution (``Plan()``) only records the ordered labels; execution i+1
(``Plan(inject_at=i)``) raises at the i-th point. ``explore`` drives this.

Seams are installed by rebinding names in ONE module namespace
(``patched(module, open=..., shutil=ModuleProxy(shutil, move=...))``); the
real modules are never modified, and the bindings are restored on exit.

    def run(plan):
        with fault.patched(fileset_module,
                           open=plan.wrap(open, "open"),
                           shutil=fault.ModuleProxy(shutil, move=plan.wrap(
                               shutil.move, "move", ("before", "after")))):
            ...code under test...; return observation
    for plan, obs in fault.explore(run): ...
"""
import contextlib


class Fault(OSError):
    """Injected failure of an I/O step."""


class Abort(BaseException):
    """Injected asynchronous abort (KeyboardInterrupt-like: not an
    Exception)."""


class Nondeterminism(RuntimeError):
    """A re-execution did not reach the same points as the recording run."""


class Plan:
    """Records fault points; raises ``exc`` at point number ``inject_at``."""

    def __init__(self, inject_at=None, exc=Fault):
        self.inject_at = inject_at
        self.exc = exc
        self.trace = []
        self.fired = None      # label of the point the fault was raised at
        self.raised = None     # the exception object that was raised

    def point(self, label):
        index = len(self.trace)
        self.trace.append(label)
        if index == self.inject_at:
            self.fired = label
            self.raised = self.exc("injected at point %d (%s)" % (index,
                                                                  label))
            raise self.raised

    def wrap(self, fn, label, phases=("before",)):
        """fn with a point before the call (it then has no effect at all)
        and/or after it (the effect is complete, the caller sees a failure:
        a crash point)."""
        def wrapped(*args, **kwargs):
            if "before" in phases:
                self.point(label + ":before")
            result = fn(*args, **kwargs)
            if "after" in phases:
                self.point(label + ":after")
            return result
        return wrapped

    def proxy(self, obj, label, points=("close",), overrides=None):
        return Proxy(self, obj, label, points, overrides or {})

    def copyfileobj(self, real, label, nbytes):
        """shutil.copyfileobj with points before the first read, after
        ``nbytes`` bytes went to the destination, and after the last write."""
        def copyfileobj(fsrc, fdst, *args, **kwargs):
            self.point(label + ":before")
            limited = _ReadUpTo(fsrc, nbytes,
                                lambda: self.point(label + ":mid"))
            real(limited, fdst, *args, **kwargs)
            self.point(label + ":after")
        return copyfileobj


class _ReadUpTo:
    """Reader handing out at most ``nbytes`` bytes before calling ``hook``
    once (short reads are legal for copyfileobj)."""

    def __init__(self, fsrc, nbytes, hook):
        self._fsrc, self._left, self._hook = fsrc, nbytes, hook

    def read(self, size=-1):
        if self._hook is not None and self._left == 0:
            hook, self._hook = self._hook, None
            hook()
        if self._hook is None:
            return self._fsrc.read(size)
        if size is None or size < 0 or size > self._left:
            size = self._left
        data = self._fsrc.read(size)
        self._left -= len(data)
        return data


class Proxy:
    """Delegating stand-in for a file-like object. Methods named in
    ``points`` become fault points (before the call); ``overrides`` maps a
    method name to ``fn(real_object, *args, **kwargs)``. Leaving a with-block
    counts as ``close``. A fault injected at ``close`` still releases the real
    object (as a failing close(2) does), so the harness leaks no descriptors.
    """

    def __init__(self, plan, real, label, points, overrides):
        self.__dict__.update(_plan=plan, _real=real, _label=label,
                             _points=tuple(points), _overrides=overrides)

    def __getattr__(self, name):
        real = self._real
        if name in self._overrides:
            fn = self._overrides[name]
            return lambda *a, **kw: fn(real, *a, **kw)
        attr = getattr(real, name)
        if name not in self._points:
            return attr
        if name == "close":
            return self._close

        def method(*args, **kwargs):
            self._plan.point("%s.%s" % (self._label, name))
            return attr(*args, **kwargs)
        return method

    def _close_point(self):
        try:
            self._plan.point(self._label + ".close")
        except BaseException:
            try:
                self._real.close()
            except Exception:
                pass
            raise

    def _close(self):
        self._close_point()
        return self._real.close()

    def __enter__(self):
        self._real.__enter__()
        return self

    def __exit__(self, *exc):
        if "close" in self._points:
            self._close_point()
        return self._real.__exit__(*exc)

    def __iter__(self):
        return iter(self._real)


class ModuleProxy:
    """Stand-in for a module inside one namespace: the given attributes are
    replaced, everything else is the real module's."""

    def __init__(self, real, **overrides):
        self.__dict__.update(overrides)
        self.__dict__["_real"] = real

    def __getattr__(self, name):
        return getattr(self._real, name)


@contextlib.contextmanager
def patched(module, **names):
    """Binds ``names`` in the namespace of ``module`` only and restores the
    previous bindings (or their absence, e.g. for the builtin ``open``)."""
    missing = object()
    saved = {k: module.__dict__.get(k, missing) for k in names}
    try:
        for k, v in names.items():
            setattr(module, k, v)
        yield
    finally:
        for k, v in saved.items():
            if v is not missing:
                setattr(module, k, v)
            elif k in module.__dict__:
                delattr(module, k)


def explore(run, excs=(Fault,)):
    """Yields (plan, run(plan)): first the recording execution, then one
    execution per recorded point and exception class, in trace order."""
    recording = Plan()
    yield recording, run(recording)
    for index in range(len(recording.trace)):
        for exc in excs:
            plan = Plan(index, exc)
            result = run(plan)
            if plan.trace[:index + 1] != recording.trace[:index + 1] \
                    or plan.fired is None:
                raise Nondeterminism(
                    "point %d: recorded %r, re-execution reached %r" % (
                        index, recording.trace[:index + 1], plan.trace))
            yield plan, result
