"""Controlled processes and queues: an environment model of
``multiprocessing.Process`` / ``multiprocessing.Queue`` as used by
``Collocator.collocate_filesets``.

Every fake process is a Python thread that runs only while it holds the baton
(one semaphore per task); the parent (the thread that created the Scheduler)
is task 0.  Scheduling points are the operations on processes and queues (and
``Scheduler.point`` for harness-declared ones such as a file write).  At a
point the explorer decides which enabled task runs next:

* continuing the running task is the default; switching away from a task that
  is still enabled is a preemption (cost 1); choices among tasks when the
  running one is blocked or has exited are free;
* ``Queue.put`` needs a free slot of the bounded semaphore, ``get`` a visible
  item, ``join``/a successful wait a dead child;
* items travel through pickle; an unpicklable item is dropped, exactly as the
  feeder thread of a real multiprocessing.Queue does; the feeder pickles
  AFTER put() has returned: by default at once, as a deviation (cost 1) only
  when the item is flushed - a producer that reuses the object it has put sees
  its later changes travel instead;
* feeder-thread delay is modelled at the reader: when a task polls a queue
  (``empty``/``get``/``qsize``) the explorer may hold back the newest k items
  of each still-running producer (cost 1); a producer's exit flushes its
  items (a real child joins its feeder thread at exit);
* polling is made visible: the parent's ``while running:`` loop is recognised
  by its ``is_alive`` sweeps; an iteration during which nothing changed
  disables the parent until something changes (held-back items are released
  first, so that delaying alone can never block the system);
* no enabled task => Deadlock; more than ``horizon`` points => Horizon.

Arguments of a process are deep-copied at ``start()`` (fork semantics);
queues are shared (``__deepcopy__`` returns self).
"""
import copy
import pickle
import threading


class Deadlock(Exception):
    pass


class Horizon(Exception):
    pass


class Abort(BaseException):
    """Unwinds a fake process whose execution is abandoned."""


class Task:
    def __init__(self, sched, tid, name):
        self.sched, self.tid, self.name = sched, tid, name
        self.sem = threading.Semaphore(0)
        self.thread = None
        self.started = False
        self.finished = False
        self.enabled = None       # None = runnable, else predicate
        self.points = 0
        self.error = None


class Scheduler:
    def __init__(self, ctx, horizon=4000, delays=True, fine=None):
        """fine: None or a predicate on code objects; inside the frames of
        such code every source line executed by a fake process is one more
        scheduling point (what worker processes do to the shared file system
        between two queue operations is then interleaved too)."""
        self.ctx = ctx
        self.horizon = horizon
        self.delays = delays
        self.fine = fine
        self._fine_cache = {}
        self.tasks = [Task(self, 0, "parent")]
        self.tasks[0].started = True
        self.current = self.tasks[0]
        self.version = 0
        self.npoints = 0
        self.aborting = False
        self.queues = []
        self.trace = []
        self.states = set()
        self.transitions = set()
        self._last_state = None
        # polling detection
        self._sweep_last = -1
        self._iter_version = None
        self.preemptions = 0
        self.delays_used = 0

    # ------------------------------------------------------------ factories
    def process_class(self):
        sched = self

        class Process(FakeProcess):
            def __init__(self, *a, **kw):
                FakeProcess.__init__(self, sched, *a, **kw)
        return Process

    def queue_class(self):
        sched = self

        def Queue(maxsize=0):
            return FakeQueue(sched, maxsize)
        return Queue

    # ------------------------------------------------------------ core
    def bump(self):
        self.version += 1

    def _is_enabled(self, t):
        if not t.started or t.finished:
            return False
        return t.enabled is None or bool(t.enabled())

    def state_key(self):
        return (tuple((t.points, t.finished) for t in self.tasks),
                tuple(q.summary() for q in self.queues))

    def point(self, label, enabled=None):
        """Scheduling point of the running task, *before* its next
        operation. `enabled` is a predicate that must hold for the operation
        to proceed (None = always)."""
        me = self.current
        if self.aborting:
            raise Abort()
        me.points += 1
        self.npoints += 1
        if self.npoints > self.horizon:
            self._abort()
            raise Horizon("more than %d scheduling points" % self.horizon)
        me.enabled = enabled
        self._schedule(me, label)
        me.enabled = None
        if self.aborting and me.tid != 0:
            raise Abort()

    def _schedule(self, me, label):
        """Chooses the next task to run; returns when `me` holds the baton
        again (immediately if it was chosen)."""
        while True:
            options = [t for t in self.tasks if self._is_enabled(t)]
            if not options:
                # release delayed items before declaring a deadlock
                if self._flush_all():
                    continue
                self._abort()
                raise Deadlock(
                    "no task enabled at %s: %s" % (label, ", ".join(
                        "%s%s" % (t.name, "(blocked)" if t.started and
                                  not t.finished else "")
                        for t in self.tasks if t.started and not t.finished)))
            break
        me_ok = me in options
        if me_ok:
            options.remove(me)
            options.insert(0, me)
        if len(options) == 1:
            chosen = options[0]
        else:
            costs = [0] + [1 if me_ok else 0] * (len(options) - 1)
            key = self.state_key()
            c = self.ctx.choose(
                len(options), label="%s@%s:%s" % (
                    me.name, label, "|".join(t.name for t in options)),
                default=0, costs=costs)
            chosen = options[c]
            if me_ok and c:
                self.preemptions += 1
        key = self.state_key()
        self.states.add(key)
        if self._last_state is not None:
            self.transitions.add((self._last_state, chosen.tid, key))
        self._last_state = key
        self.trace.append((me.name, label, chosen.name))
        if chosen is not me:
            self.current = chosen
            chosen.sem.release()
            if not me.finished:
                me.sem.acquire()
                if self.aborting and me.tid != 0:
                    raise Abort()
                if self.aborting and me.tid == 0:
                    raise self.abort_reason

    def _abort(self):
        self.aborting = True
        self.abort_reason = Deadlock("aborted")
        for t in self.tasks:
            if t.started and not t.finished and t is not self.current:
                t.sem.release()

    def _flush_all(self):
        changed = False
        for q in self.queues:
            if q.held:
                q.release_held()
                changed = True
        if changed:
            self.bump()
        return changed

    # ------------------------------------------------------------ tasks
    def _trace_call(self, frame, event, arg):
        if event != "call" or self.aborting:
            return None
        code = frame.f_code
        ok = self._fine_cache.get(code)
        if ok is None:
            ok = self._fine_cache[code] = bool(self.fine(code))
        return self._trace_line if ok else None

    def _trace_line(self, frame, event, arg):
        if event == "line" and not self.aborting:
            self.point("line:%s:%d" % (frame.f_code.co_name, frame.f_lineno))
        return self._trace_line

    def _run_task(self, task, target, args, kwargs):
        import sys
        task.sem.acquire()
        try:
            if self.aborting:
                return
            if self.fine is not None:
                sys.settrace(self._trace_call)
            try:
                target(*args, **kwargs)
            finally:
                sys.settrace(None)
        except Abort:
            pass
        except BaseException as exc:      # the fake process crashed
            task.error = exc
        finally:
            task.finished = True
            if not self.aborting:
                for q in self.queues:
                    q.producer_exit(task)
                self.bump()
                try:
                    self._schedule(task, "exit")
                except (Deadlock, Horizon) as exc:
                    self.abort_reason = exc
                    # wake the parent so that it reports
                    self.tasks[0].sem.release()

    def finish(self):
        """Called by the harness after the parent's work ended: abandons
        tasks that are still alive (returns their names)."""
        alive = [t.name for t in self.tasks[1:] if t.started and
                 not t.finished]
        if alive:
            self.aborting = True
            for t in self.tasks[1:]:
                if t.started and not t.finished:
                    t.sem.release()
        for t in self.tasks[1:]:
            if t.thread is not None:
                t.thread.join(10)
        return alive

    # ------------------------------------------------------------ polling
    def note_is_alive(self, index):
        """Recognises the parent's busy-wait loop by its is_alive sweeps."""
        me = self.current
        if me.tid != 0:
            return None
        new_iteration = index <= self._sweep_last
        self._sweep_last = index
        if not new_iteration:
            return None
        if self._iter_version is not None and \
                self._iter_version == self.version:
            # nothing changed during the last iteration: stutter step
            if self._flush_all():
                self._iter_version = self.version
                return None
            v = self.version
            self._iter_version = None
            return lambda: self.version != v
        self._iter_version = self.version
        return None


class FakeProcess:
    def __init__(self, sched, group=None, target=None, name=None, args=(),
                 kwargs=None, daemon=None):
        self.sched = sched
        self.target, self.args, self.kwargs = target, args, kwargs or {}
        self.daemon = daemon
        self.index = len(sched.tasks) - 1
        self.task = Task(sched, len(sched.tasks), name or "w%d" % self.index)
        sched.tasks.append(self.task)
        self.exitcode = None

    def __deepcopy__(self, memo):
        return self

    def start(self):
        s = self.sched
        s.point("start:" + self.task.name)
        # fork semantics: the child works on a private copy of everything
        # reachable from its arguments (queues are shared)
        args, kwargs = copy.deepcopy((self.args, self.kwargs))
        t = threading.Thread(target=s._run_task,
                             args=(self.task, self.target, args, kwargs),
                             daemon=True)
        self.task.thread = t
        self.task.started = True
        s.bump()
        t.start()

    def is_alive(self):
        s = self.sched
        blocked = s.note_is_alive(self.index)
        s.point("alive?:" + self.task.name, blocked)
        return self.task.started and not self.task.finished

    def join(self, timeout=None):
        self.sched.point("join:" + self.task.name,
                         lambda: self.task.finished)

    def terminate(self):
        pass


class FakeQueue:
    def __init__(self, sched, maxsize=0):
        self.sched = sched
        self.maxsize = maxsize
        self.visible = []          # [seq, producer task, payload bytes, None]
        self.held = []             # put but not yet visible to readers
        self.in_flight = 0         # put and not yet got (the semaphore)
        self.seq = 0
        self.dropped = 0
        self.qid = len(sched.queues)
        sched.queues.append(self)

    def __deepcopy__(self, memo):
        return self

    def summary(self):
        return (len(self.visible), len(self.held), self.in_flight)

    # ---- producer side
    def put(self, obj, block=True, timeout=None):
        s = self.sched
        s.point("put:q%d" % self.qid,
                (lambda: self.in_flight < self.maxsize)
                if self.maxsize > 0 else None)
        self.in_flight += 1
        # The feeder thread of a real multiprocessing.Queue pickles the object
        # some time after put() returned. Default: at once. Deviation (cost
        # 1): only when the item is flushed to the readers - whatever the
        # producer has done to the object in between is what arrives.
        late = 0
        if s.delays:
            late = s.ctx.choose(2, label="put:q%d pickled at flush" % self.qid,
                                default=0, cost=1)
            if late:
                s.delays_used += 1
        self.seq += 1
        item = [self.seq, s.current, None, obj]
        if not late and not self._pickle(item):
            s.bump()
            return
        self.held.append(item)
        s.bump()

    def _pickle(self, item):
        """Serialises the object of an item; False if it cannot be pickled
        (the feeder thread prints the error, drops the item and releases the
        semaphore slot)."""
        if item[2] is not None:
            return True
        try:
            item[2] = pickle.dumps(item[3])
        except Exception:
            self.dropped += 1
            self.in_flight -= 1
            return False
        item[3] = None
        return True

    def _show(self, items):
        """Items become visible to readers (pickled now at the latest)."""
        self.visible.extend(i for i in items if self._pickle(i))
        self.visible.sort(key=lambda h: h[0])

    def producer_exit(self, task):
        mine = [h for h in self.held if h[1] is task]
        if mine:
            self.held = [h for h in self.held if h[1] is not task]
            self._show(mine)

    def release_held(self):
        held, self.held = self.held, []
        self._show(held)

    # ---- consumer side
    def _poll(self, label):
        """Visibility decision at a reader's poll: per producer with held
        items, how many of its newest items stay invisible (default none)."""
        s = self.sched
        producers = []
        for h in self.held:
            if h[1] not in producers:
                producers.append(h[1])
        for p in producers:
            mine = [h for h in self.held if h[1] is p]
            k = 0
            if s.delays and not p.finished:
                k = s.ctx.choose(
                    len(mine) + 1, label="%s:q%d holds back of %s" % (
                        label, self.qid, p.name), default=0, cost=1)
                if k:
                    s.delays_used += 1
            release = mine[:len(mine) - k]
            if release:
                for h in release:
                    self.held.remove(h)
                self._show(release)
                s.bump()

    def empty(self):
        self.sched.point("empty?:q%d" % self.qid)
        self._poll("empty?")
        return not self.visible

    def qsize(self):
        self.sched.point("qsize:q%d" % self.qid)
        self._poll("qsize")
        return len(self.visible)

    def get(self, block=True, timeout=None):
        s = self.sched

        def ready():
            if self.visible:
                return True
            if self.held:
                # a blocked reader sees the items as soon as they are flushed
                self.release_held()
                s.bump()
                return bool(self.visible)
            return False
        s.point("get:q%d" % self.qid, ready)
        seq, producer, payload, _ = self.visible.pop(0)
        self.in_flight -= 1
        s.bump()
        return pickle.loads(payload)

    def close(self):
        pass

    def join_thread(self):
        pass

    def cancel_join_thread(self):
        pass
