"""Line-level interleaving of real Python threads under a cooperative
scheduler (the CHESS idiom): the main thread and the tasks of a thread pool
run the real code; exactly one of them runs at a time (it holds the baton);
every ``line`` event inside a traced source file is a scheduling point at
which the explorer may hand the baton to another enabled thread (a preemption,
cost 1).  Blocking (``Future.result`` on an unfinished task, pool shutdown)
and thread exit are free choices.

Nothing here uses real locks of the code under test: typhon's FileSet code
has none.  The tasks are real ``threading.Thread`` objects, so thread-local
behaviour (``threading.get_ident``, warnings filters) is the real one.

Owned nondeterminism: which thread runs.  Not owned: anything the traced code
does with wall-clock time or random names (``tempfile``) - harnesses keep
those out of their observations.
"""
import os
import sys
import threading
from concurrent.futures import Executor, Future


class Deadlock(Exception):
    pass


class Horizon(Exception):
    pass


class _Kill(BaseException):
    """Unwinds a parked task thread when its execution is being torn down."""


class _T:
    __slots__ = ("tid", "sem", "state", "pred", "fn", "fut", "can_start",
                 "thread", "label")

    def __init__(self, tid):
        self.tid = tid
        self.sem = threading.Semaphore(0)
        self.state = "run"          # new | run | blocked | done
        self.pred = None
        self.fn = self.fut = self.can_start = self.thread = None
        self.label = ""


class Scheduler:
    """One per execution."""

    def __init__(self, ctx, traced, horizon=200000, on_point=None):
        self.ctx = ctx
        self.traced = traced          # filename -> bool
        self.horizon = horizon
        self.on_point = on_point
        self.threads = [_T(0)]
        self.current = 0
        self.dead = False
        self.deadlocked = None
        self.points = 0               # scheduling points with >= 2 enabled
        self.switches = 0
        self.trace = []               # (tid, label) at every switch
        self._cache = {}
        self._main_ident = threading.get_ident()

    # ------------------------------------------------------------ tracing
    def _global(self, frame, event, arg):
        if event != "call" or self.dead:
            return None
        fn = frame.f_code.co_filename
        ok = self._cache.get(fn)
        if ok is None:
            ok = self._cache[fn] = bool(self.traced(fn))
        return self._local if ok else None

    def _local(self, frame, event, arg):
        if event == "line" and not self.dead:
            self.point("%s:%d" % (os.path.basename(frame.f_code.co_filename),
                                  frame.f_lineno))
        return self._local

    def start_tracing(self):
        sys.settrace(self._global)

    def stop_tracing(self):
        sys.settrace(None)

    # --------------------------------------------------------- scheduling
    def _enabled(self, t):
        if t.state == "run":
            return True
        if t.state == "new":
            return t.can_start()
        if t.state == "blocked":
            return bool(t.pred())
        return False

    def point(self, label):
        me = self.threads[self.current]
        others = [t for t in self.threads
                  if t is not me and self._enabled(t)]
        if not others:
            return
        self.points += 1
        if self.points > self.horizon:
            raise Horizon("more than %d scheduling points" % self.horizon)
        if self.on_point:
            self.on_point(me.tid, label)
        c = self.ctx.choose(1 + len(others),
                            label="t%d@%s" % (me.tid, label), default=0,
                            cost=1)
        if c:
            self._switch(me, others[c - 1], label)

    def _switch(self, me, to, label):
        self.switches += 1
        self.trace.append((me.tid, label, to.tid))
        self._resume(to)
        self._park(me)

    def _resume(self, to):
        self.current = to.tid
        if to.state == "new":
            to.state = "run"
            to.thread = threading.Thread(target=self._body, args=(to,),
                                         name="mc-task-%d" % to.tid,
                                         daemon=True)
            to.thread.start()
        else:
            to.state = "run"
            to.sem.release()

    def _park(self, me):
        me.sem.acquire()
        if self.dead and me.tid != 0:
            raise _Kill()
        if me.tid == 0 and self.deadlocked:
            raise Deadlock(self.deadlocked)

    def block_until(self, pred, label):
        """The calling thread waits until pred() holds."""
        me = self.threads[self.current]
        while not pred():
            others = [t for t in self.threads
                      if t is not me and self._enabled(t)]
            if not others:
                raise Deadlock("t%d waits at %s and no thread is enabled"
                               % (me.tid, label))
            c = self.ctx.choose(len(others),
                                label="t%d blocks@%s" % (me.tid, label),
                                default=0, cost=0) if len(others) > 1 else 0
            me.state, me.pred = "blocked", pred
            self._switch(me, others[c], "block:" + label)
            me.pred = None

    def spawn(self, fn, fut, can_start, label=""):
        t = _T(len(self.threads))
        t.state, t.fn, t.fut, t.can_start, t.label = \
            "new", fn, fut, can_start, label
        self.threads.append(t)
        return t

    def _body(self, t):
        sys.settrace(self._global)
        try:
            try:
                if not t.fut.set_running_or_notify_cancel():
                    return
                r = t.fn()
            except _Kill:
                return
            except BaseException as exc:
                t.fut.set_exception(exc)
            else:
                t.fut.set_result(r)
        finally:
            sys.settrace(None)
            t.state = "done"
            if not self.dead:
                self._exit(t)

    def _exit(self, t):
        others = [x for x in self.threads if x is not t and self._enabled(x)]
        if not others:
            if any(x.state != "done" for x in self.threads if x.tid):
                self.deadlocked = "t%d exited and no thread is enabled" % t.tid
            # main is parked in block_until with an unsatisfied predicate, or
            # every task is done: hand the baton back to main either way
            main = self.threads[0]
            self.current = 0
            main.state = "run"
            main.sem.release()
            return
        c = self.ctx.choose(len(others), label="t%d exits" % t.tid,
                            default=0, cost=0) if len(others) > 1 else 0
        self.trace.append((t.tid, "exit", others[c].tid))
        self._resume(others[c])

    # -- controlled versions of concurrent.futures' module-level waiting
    # functions (the real ones block on condition variables while the caller
    # holds the baton)
    def as_completed(self, fs, timeout=None):
        pending = list(fs)
        while pending:
            self.block_until(lambda: any(f.done() for f in pending),
                             "as_completed")
            for f in [f for f in pending if f.done()]:
                pending.remove(f)
                yield f

    def wait(self, fs, timeout=None, return_when="ALL_COMPLETED"):
        import concurrent.futures as cf
        fs = list(fs)

        def ready():
            d = [f for f in fs if f.done()]
            if return_when == cf.FIRST_COMPLETED:
                return bool(d)
            if return_when == cf.FIRST_EXCEPTION:
                return len(d) == len(fs) or any(
                    not f.cancelled() and Future.exception(f, 0) is not None
                    for f in d)
            return len(d) == len(fs)
        self.block_until(ready, "wait")
        d = {f for f in fs if f.done()}
        return cf._base.DoneAndNotDoneFutures(d, set(fs) - d)

    def install_waiters(self, modules=()):
        """Rebinds concurrent.futures.as_completed / wait (which block on
        real condition variables) to the controlled versions - also where a
        module of the code under test has imported them by name
        (``from concurrent.futures import wait``); returns a function that
        restores them."""
        import concurrent.futures as cf
        saved = (cf.as_completed, cf.wait, cf._base.as_completed,
                 cf._base.wait)
        cf.as_completed = cf._base.as_completed = self.as_completed
        cf.wait = cf._base.wait = self.wait
        by_name = []
        for mod in modules:
            for name, mine in (("as_completed", self.as_completed),
                               ("wait", self.wait)):
                if getattr(mod, name, None) in saved:
                    by_name.append((mod, name, getattr(mod, name)))
                    setattr(mod, name, mine)

        def restore():
            (cf.as_completed, cf.wait, cf._base.as_completed,
             cf._base.wait) = saved
            for mod, name, orig in by_name:
                setattr(mod, name, orig)
        return restore

    def close(self):
        """End of the execution: parked task threads are unwound."""
        self.dead = True
        for t in self.threads[1:]:
            if t.state in ("run", "blocked") and t.thread is not None:
                t.sem.release()
        for t in self.threads[1:]:
            if t.thread is not None:
                t.thread.join(5)


class TaskFuture(Future):
    def __init__(self, sched):
        Future.__init__(self)
        self._sched = sched

    def result(self, timeout=None):
        if not self.done():
            self._sched.block_until(self.done, "result")
        return Future.result(self, 0)

    def exception(self, timeout=None):
        if not self.done():
            self._sched.block_until(self.done, "exception")
        return Future.exception(self, 0)


def pool_class(sched, flavour="thread"):
    """A ThreadPoolExecutor look-alike whose tasks are threads of ``sched``:
    FIFO work queue, at most max_workers tasks started and not finished.
    Flavour "process": the work item and the result travel through pickle, so
    every task works on private copies of its arguments (what a process pool
    gives it) and the tasks share nothing but the file system; interleaving
    them at line granularity over-approximates the operating system's
    scheduling of the worker processes."""
    import pickle

    class InterleavedThreadPool(Executor):
        def __init__(self, max_workers=None, **kw):
            if max_workers is None:
                max_workers = 4
            if max_workers <= 0:
                raise ValueError("max_workers must be greater than 0")
            self.max_workers = max_workers
            self.tasks = []
            self.closed = False

        def _startable(self, t):
            if t.fut.cancelled():
                return False
            running = sum(1 for x in self.tasks if x.state in ("run",
                                                               "blocked"))
            if running >= self.max_workers:
                return False
            for x in self.tasks:
                if x.state == "new" and not x.fut.cancelled():
                    return x is t
            return False

        def submit(self, fn, /, *args, **kwargs):
            if self.closed:
                raise RuntimeError("cannot schedule new futures after "
                                   "shutdown")
            fut = TaskFuture(sched)
            if flavour == "process":
                try:
                    blob = pickle.dumps((fn, args, kwargs))
                except Exception as exc:
                    fut.set_exception(exc)
                    return fut

                def body():
                    f, a, k = pickle.loads(blob)
                    return pickle.loads(pickle.dumps(f(*a, **k)))
            else:
                def body():
                    return fn(*args, **kwargs)
            t = sched.spawn(body, fut, None)
            t.can_start = lambda t=t: self._startable(t)
            self.tasks.append(t)
            sched.point("submit")
            return fut

        def shutdown(self, wait=True, *, cancel_futures=False):
            self.closed = True
            if cancel_futures:
                for t in self.tasks:
                    if t.state == "new":
                        t.fut.cancel()
            if wait:
                sched.block_until(
                    lambda: all(t.state == "done" or t.fut.cancelled()
                                for t in self.tasks), "shutdown")

    return InterleavedThreadPool
