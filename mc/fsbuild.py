"""Harness-side model of FileSet path templates: an independent name generator
and a backtracking parser working on a token list (no regular expressions, no
typhon imports), plus helpers to materialise file trees on tmpfs.

A template is a string such as
    "{year}/{month}/{day}/{sat}_{hour}{minute}-{end_hour}{end_minute}.dat"
Temporal placeholders have fixed widths; user placeholders are described by
the harness through ``users = {name: UserPH}``.
"""
import datetime as dt
import os

WIDTH = {
    "year": 4, "year2": 2, "month": 2, "day": 2, "doy": 3, "hour": 2,
    "minute": 2, "second": 2, "decisecond": 1, "centisecond": 2,
    "millisecond": 3, "microsecond": 6,
}
for _k in list(WIDTH):
    WIDTH["end_" + _k] = WIDTH[_k]

YEAR2_THRESHOLD = 65     # documented: < 65 -> 20xx, >= 65 -> 19xx


class UserPH:
    """A user placeholder: `values` are the strings the harness may fill in;
    `accepts(s)` says whether the placeholder's regex admits string s (used
    by the reference parser; default: exactly the listed values)."""

    def __init__(self, values, regex=None, accepts=None, maxlen=6):
        self.values = list(values)
        self.regex = regex            # what is handed to typhon
        self._accepts = accepts
        self.maxlen = maxlen

    def accepts(self, s):
        if self._accepts is not None:
            return self._accepts(s)
        return s in self.values


def tokenize(template):
    """-> list of ("lit", text) | ("ph", name) | ("wild",)"""
    out = []
    i = 0
    lit = ""
    while i < len(template):
        ch = template[i]
        if ch == "{":
            j = template.index("}", i)
            if lit:
                out.append(("lit", lit))
                lit = ""
            out.append(("ph", template[i + 1:j]))
            i = j + 1
        elif ch == "*":
            if lit:
                out.append(("lit", lit))
                lit = ""
            out.append(("wild",))
            i += 1
        else:
            lit += ch
            i += 1
    if lit:
        out.append(("lit", lit))
    return out


def field(name, t):
    """Text of temporal placeholder `name` (without end_ prefix) for time t."""
    if name == "year":
        return "%04d" % t.year
    if name == "year2":
        return "%02d" % (t.year % 100)
    if name == "month":
        return "%02d" % t.month
    if name == "day":
        return "%02d" % t.day
    if name == "doy":
        return "%03d" % t.timetuple().tm_yday
    if name == "hour":
        return "%02d" % t.hour
    if name == "minute":
        return "%02d" % t.minute
    if name == "second":
        return "%02d" % t.second
    if name == "millisecond":
        return "%03d" % (t.microsecond // 1000)
    raise KeyError(name)


def render(template, t0, t1=None, attrs=None, wild="x"):
    """The harness' own name generator."""
    if t1 is None:
        t1 = t0
    out = []
    for tok in tokenize(template):
        if tok[0] == "lit":
            out.append(tok[1])
        elif tok[0] == "wild":
            out.append(wild)
        else:
            name = tok[1]
            if name in WIDTH:
                if name.startswith("end_"):
                    out.append(field(name[4:], t1))
                else:
                    out.append(field(name, t0))
            else:
                out.append(str(attrs[name]))
    return "".join(out)


def parse(template, name, users=None):
    """Backtracking parser. Returns the list of all distinct assignments
    {placeholder: string} under which `name` is an instance of `template`
    (normally zero or one; repeated placeholders must agree... typhon only
    captures the first occurrence, the others merely have to match the
    placeholder's pattern, which is what is implemented here)."""
    users = users or {}
    toks = tokenize(template)
    results = []

    def rec(ti, pos, env):
        if ti == len(toks):
            if pos == len(name):
                if env not in results:
                    results.append(dict(env))
            return
        tok = toks[ti]
        if tok[0] == "lit":
            if name.startswith(tok[1], pos):
                rec(ti + 1, pos + len(tok[1]), env)
        elif tok[0] == "wild":
            for end in range(pos, len(name) + 1):
                rec(ti + 1, end, env)
        else:
            ph = tok[1]
            if ph in WIDTH:
                w = WIDTH[ph]
                s = name[pos:pos + w]
                if len(s) == w and s.isdigit() and s.isascii():
                    if ph in env:
                        rec(ti + 1, pos + w, env)
                    else:
                        env[ph] = s
                        rec(ti + 1, pos + w, env)
                        del env[ph]
            else:
                u = users[ph]
                for end in range(pos + 1, min(len(name), pos + u.maxlen) + 1):
                    s = name[pos:end]
                    if u.accepts(s):
                        if ph in env:
                            rec(ti + 1, end, env)
                        else:
                            env[ph] = s
                            rec(ti + 1, end, env)
                            del env[ph]
    rec(0, 0, {})
    return results


def _std_args(d):
    """{'year2': '20', 'doy': '060', ...} -> datetime kwargs (ints)."""
    a = {k: int(v) for k, v in d.items()}
    if "year2" in a:
        y2 = a.pop("year2")
        a["year"] = (2000 if y2 < YEAR2_THRESHOLD else 1900) + y2
    if "millisecond" in a:
        a["microsecond"] = 1000 * a.pop("millisecond")
    if "doy" in a:
        d0 = dt.date(a["year"], 1, 1) + dt.timedelta(days=a.pop("doy") - 1)
        a["month"], a["day"] = d0.month, d0.day
    return a


UNIT_ORDER = ["year", "month", "day", "hour", "minute", "second",
              "microsecond"]
UNIT_STEP = {"day": dt.timedelta(days=1), "hour": dt.timedelta(hours=1),
             "minute": dt.timedelta(minutes=1),
             "second": dt.timedelta(seconds=1)}


def times_from_fields(env, time_coverage=None):
    """Reference reading of a parsed name (the rule of property C02):
    start from the start fields; end fields missing are taken from the start;
    if the end then precedes the start it is moved on by one unit of the next
    coarser field than the coarsest end field. Returns (t0, t1) or raises
    ValueError for impossible dates. t1 is None when the rule of the statement
    does not determine it (roll-over of an end whose coarsest field is coarser
    than hour). An end whose coarsest field is a fraction of a second moves on
    by one second."""
    s = {k: v for k, v in env.items() if k in WIDTH and
         not k.startswith("end_")}
    e = {k[4:]: v for k, v in env.items() if k in WIDTH and
         k.startswith("end_")}
    if not s:
        return None, None
    sa = _std_args(s)
    t0 = dt.datetime(**sa)
    if not e:
        if time_coverage is not None:
            return t0, t0 + time_coverage
        return t0, t0
    ea = dict(sa)
    # doy/year2 in the end fields need the year
    e2 = dict(e)
    raw = {k: int(v) for k, v in e2.items()}
    if "year2" in raw:
        y2 = raw.pop("year2")
        raw["year"] = (2000 if y2 < YEAR2_THRESHOLD else 1900) + y2
    if "millisecond" in raw:
        raw["microsecond"] = 1000 * raw.pop("millisecond")
    if "doy" in raw:
        year = raw.get("year", sa["year"])
        d0 = dt.date(year, 1, 1) + dt.timedelta(days=raw.pop("doy") - 1)
        raw["month"], raw["day"] = d0.month, d0.day
    ea.update(raw)
    t1 = dt.datetime(**ea)
    if t1 < t0:
        coarsest = min(UNIT_ORDER.index(k) for k in raw)
        unit = UNIT_ORDER[coarsest]
        if unit in ("hour", "minute", "second", "microsecond"):
            t1 = t1 + UNIT_STEP[UNIT_ORDER[coarsest - 1]]
        else:
            return t0, None
    return t0, t1


class FileModel:
    """One file the harness created: path plus what its name means."""
    __slots__ = ("path", "t0", "t1", "attrs", "rel")

    def __init__(self, path, t0, t1, attrs, rel=None):
        self.path, self.t0, self.t1, self.attrs = path, t0, t1, attrs
        self.rel = rel

    def __repr__(self):
        return "F(%s %s..%s %s)" % (self.rel or self.path, self.t0, self.t1,
                                    self.attrs)


def touch(path, content=b""):
    os.makedirs(os.path.dirname(path), exist_ok=True)
    with open(path, "wb") as f:
        f.write(content)


def populate(base, template, files, content=b""):
    """files: iterable of (t0, t1, attrs). Creates them under base with the
    harness' generator and returns the FileModel list."""
    out = []
    for t0, t1, attrs in files:
        rel = render(template, t0, t1, attrs)
        path = os.path.join(base, rel)
        touch(path, content)
        out.append(FileModel(path, t0, t1, dict(attrs or {}), rel))
    return out
