"""python3-vt mc/validate_evidence.py <file>...: validates evidence files (or
MANIFEST.json) against the schemas in /root/.vp (copies in /verif/schemas)."""
import json
import os
import sys

import jsonschema

HERE = os.path.dirname(os.path.abspath(__file__))


def schema(name):
    for d in (os.path.join(HERE, "..", "schemas"), "/root/.vp"):
        p = os.path.join(d, name)
        if os.path.exists(p):
            with open(p) as f:
                return json.load(f)
    raise SystemExit("schema %s not found" % name)


rc = 0
for path in sys.argv[1:]:
    with open(path) as f:
        doc = json.load(f)
    name = "MANIFEST.schema.json" if os.path.basename(path) == \
        "MANIFEST.json" else "EVIDENCE.schema.json"
    try:
        jsonschema.validate(doc, schema(name))
    except jsonschema.ValidationError as e:
        print("INVALID %s: %s" % (path, e.message), file=sys.stderr)
        rc = 2
sys.exit(rc)
