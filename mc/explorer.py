"""Re-execution ("stateless") explorer with deviation bounds.

An execution is a function ``run(ctx)`` that calls ``ctx.choose(...)`` at
every point where the environment could answer in more than one way.  The
explorer replays a recorded prefix of choices, takes the default afterwards,
and then schedules every alternative of every point after the prefix whose
accumulated deviation cost stays within the bound (depth-first).

* cost: ``costs[i]`` is the deviation cost of alternative ``i`` (0 = free
  choice, e.g. which thread runs when the running one blocked; 1 = a
  deviation such as a preemption, a delayed visibility, a fault).
* state pruning: if ``state`` is given at a choice point, the first arrival at
  that (harness-owned) abstract state with a given remaining budget expands it;
  a later arrival with no larger remaining budget contributes no alternatives
  from that point on.  The pruned execution still runs to completion on
  defaults (nothing is thrown through the code under test).
* replay is strict: a recorded choice that is out of range, or a point whose
  number of alternatives differs from the recording, raises Divergence.
"""


class Divergence(Exception):
    pass


class Point:
    __slots__ = ("n", "chosen", "costs", "label", "state")

    def __init__(self, n, chosen, costs, label, state):
        self.n = n
        self.chosen = chosen
        self.costs = costs
        self.label = label
        self.state = state


class Ctx:
    def __init__(self, prefix=()):
        self.prefix = prefix          # tuple of (choice, n)
        self.points = []

    def choose(self, n, label="", default=0, cost=1, costs=None, state=None):
        """Returns an index in range(n)."""
        if n <= 0:
            raise ValueError("choose() needs at least one alternative")
        if costs is None:
            costs = [0 if i == default else cost for i in range(n)]
        i = len(self.points)
        if i < len(self.prefix):
            c, rn = self.prefix[i]
            if rn != n or not 0 <= c < n:
                raise Divergence(
                    "point %d (%s): recorded %d of %d, now %d alternatives"
                    % (i, label, c, rn, n))
        else:
            c = default
        self.points.append(Point(n, c, costs, label, state))
        return c

    @property
    def choices(self):
        return [(p.chosen, p.n) for p in self.points]

    def labels(self):
        return [(p.label, p.chosen) for p in self.points]


class Stats:
    def __init__(self):
        self.executions = 0
        self.per_bound = {}
        self.cut = False           # some alternative exceeded the bound
        self.pruned = 0
        self.states = set()
        self.transitions = set()
        self.max_points = 0


def explore(run, bound, prune=True, roots=((), ), stats=None, max_exec=None):
    """Generator over (ctx, result-of-run) for every execution within bound.

    ``roots`` is a sequence of choice prefixes to start from (used to split a
    search over worker processes)."""
    st = stats if stats is not None else Stats()
    seen = {}                     # state -> minimal cost at which it was seen
    stack = [tuple(r) for r in reversed(list(roots))]
    while stack:
        prefix = stack.pop()
        ctx = Ctx(prefix)
        result = run(ctx)
        st.executions += 1
        if len(ctx.points) < len(prefix):
            raise Divergence("execution ended after %d points, prefix has %d"
                             % (len(ctx.points), len(prefix)))
        st.max_points = max(st.max_points, len(ctx.points))
        used = 0
        prev_state = None
        new_alts = []
        pruned_here = False
        for i, p in enumerate(ctx.points):
            if p.state is not None:
                st.states.add(p.state)
                if prev_state is not None:
                    st.transitions.add((prev_state, p.chosen, p.state))
                prev_state = p.state
            if i >= len(prefix) and not pruned_here:
                if prune and p.state is not None:
                    old = seen.get(p.state)
                    if old is not None and old <= used:
                        pruned_here = True
                        st.pruned += 1
                    else:
                        seen[p.state] = used
                if not pruned_here:
                    for alt in range(p.n):
                        if alt == p.chosen:
                            continue
                        if used + p.costs[alt] > bound:
                            st.cut = True
                            continue
                        new_alts.append(
                            tuple((q.chosen, q.n) for q in ctx.points[:i])
                            + ((alt, p.n),))
            used += p.costs[p.chosen]
        st.per_bound[used] = st.per_bound.get(used, 0) + 1
        stack.extend(reversed(new_alts))
        yield ctx, result
        if max_exec is not None and st.executions >= max_exec:
            if stack:
                st.cut = True
                st.capped = True
            return


def split_roots(run, bound, want, on_execution=None):
    """Expands the search breadth-first until at least ``want`` unexplored
    prefixes are pending; returns them.  The executions performed here are
    handed to ``on_execution`` (they are part of the exploration)."""
    from collections import deque
    pending = deque([()])
    done = 0
    while pending and len(pending) < want:
        prefix = pending.popleft()
        ctx = Ctx(prefix)
        result = run(ctx)
        done += 1
        if on_execution:
            on_execution(ctx, result)
        used = 0
        for i, p in enumerate(ctx.points):
            if i >= len(prefix):
                for alt in range(p.n):
                    if alt != p.chosen and used + p.costs[alt] <= bound:
                        pending.append(
                            tuple((q.chosen, q.n) for q in ctx.points[:i])
                            + ((alt, p.n),))
            used += p.costs[p.chosen]
    return list(pending), done
