"""Controlled executor: an environment model of concurrent.futures pools in
which the explorer decides, at every synchronisation of the main thread, which
pool event (a queued task gets a worker / a running task finishes) happens
next.  No real threads exist; a task body runs at its finish event.

It subclasses concurrent.futures.Executor, so the standard library's own
``map()`` logic (submit everything, then collect results in order) is kept.

Process flavour: callable, arguments, results and exceptions travel through
pickle, as with a real ProcessPoolExecutor (isolation of the worker's copy of
its arguments, picklability errors).
"""
import pickle
from concurrent.futures import Executor, Future


class Deadlock(Exception):
    pass


class World:
    """One per execution: owns the explorer context and the event log."""

    def __init__(self, ctx, state_fn=None, on_event=None):
        self.ctx = ctx
        self.state_fn = state_fn        # harness part of the abstract state
        self.on_event = on_event
        self.pools = []
        self.log = []                   # ("submit"|"start"|"finish", pool, id)
        self.sync = 0
        self.max_inflight = 0
        self.closed = False

    def close(self):
        """End of the execution this world belongs to. Whatever is finalised
        later (a generator abandoned in cyclic garbage shutting its pool
        down) must neither reach the explorer nor run task bodies."""
        self.closed = True
        for p in self.pools:
            for t in p.queue + p.running:
                t.cancel() or t.set_exception(RuntimeError("world closed"))
            p.finished.extend(p.queue + p.running)
            p.queue, p.running = [], []

    def executor_class(self, flavour):
        world = self

        class Bound(ControlledExecutor):
            def __init__(self, max_workers=None, **kw):
                ControlledExecutor.__init__(self, world, flavour,
                                            max_workers, **kw)
        Bound.__name__ = "Controlled%sPool" % flavour.capitalize()
        return Bound

    # -- scheduling ---------------------------------------------------------
    def events(self):
        ev = []
        for p in self.pools:
            if p.queue and len(p.running) < p.max_workers:
                ev.append(("start", p, p.queue[0]))
            for t in p.running:
                ev.append(("finish", p, t))
        return ev

    def state(self, where, blocked_on=None):
        pools = tuple((tuple(t.tid for t in p.queue),
                       tuple(t.tid for t in p.running),
                       tuple(sorted(t.tid for t in p.finished)),
                       p.closed) for p in self.pools)
        h = self.state_fn() if self.state_fn else None
        return (where, self.sync, blocked_on, pools, h)

    def sync_point(self, where, blocked_on=None, until=None):
        """Called at every main-thread synchronisation. While the explorer
        picks pool events they are executed; returns when main proceeds (or,
        if blocked_on / until is given, when that future is done / that
        predicate holds)."""
        if self.closed:
            return
        self.sync += 1
        if blocked_on is not None:
            until = blocked_on.done
        tag = getattr(blocked_on, "tid", None if until is None else "until")
        while True:
            ev = self.events()
            can_proceed = until is None or until()
            if not ev and can_proceed:
                return
            if not ev and not can_proceed:
                raise Deadlock("main waits at %s (%r) but no pool event is "
                               "enabled" % (where, tag))
            n = len(ev) + (1 if can_proceed else 0)
            labels = (["main"] if can_proceed else []) + [
                "%s%d.%d" % (k, self.pools.index(p), t.tid)
                for k, p, t in ev]
            c = self.ctx.choose(
                n, label="%s:%s" % (where, "|".join(labels)), default=0,
                cost=0, state=self.state(where, tag if not can_proceed
                                         else None))
            if can_proceed:
                if c == 0:
                    return
                c -= 1
            kind, pool, task = ev[c]
            pool.fire(kind, task)

    # -- controlled versions of the module-level waiting functions ----------
    def as_completed(self, fs, timeout=None):
        pending = list(fs)
        while pending:
            self.sync_point("as_completed",
                            until=lambda: any(f.done() for f in pending))
            done = [f for f in pending if f.done()]
            for f in done:
                pending.remove(f)
                yield f

    def wait(self, fs, timeout=None, return_when="ALL_COMPLETED"):
        import concurrent.futures as cf
        fs = list(fs)

        def ready():
            d = [f for f in fs if f.done()]
            if return_when == cf.FIRST_COMPLETED:
                return bool(d)
            if return_when == cf.FIRST_EXCEPTION:
                return len(d) == len(fs) or any(
                    not f.cancelled() and Future.exception(f, 0) is not None
                    for f in d)
            return len(d) == len(fs)
        self.sync_point("wait", until=ready)
        d = {f for f in fs if f.done()}
        return cf._base.DoneAndNotDoneFutures(d, set(fs) - d)

    def install_waiters(self, modules=()):
        """Rebinds concurrent.futures.as_completed / wait (which block on
        real condition variables) to the controlled versions - also where a
        module of the code under test has imported them by name
        (``from concurrent.futures import wait``); returns a function that
        restores them."""
        import concurrent.futures as cf
        saved = (cf.as_completed, cf.wait, cf._base.as_completed,
                 cf._base.wait)
        cf.as_completed = cf._base.as_completed = self.as_completed
        cf.wait = cf._base.wait = self.wait
        by_name = []
        for mod in modules:
            for name, mine in (("as_completed", self.as_completed),
                               ("wait", self.wait)):
                if getattr(mod, name, None) in saved:
                    by_name.append((mod, name, getattr(mod, name)))
                    setattr(mod, name, mine)

        def restore():
            (cf.as_completed, cf.wait, cf._base.as_completed,
             cf._base.wait) = saved
            for mod, name, orig in by_name:
                setattr(mod, name, orig)
        return restore


class Task(Future):
    def __init__(self, pool, tid, fn, args, kwargs):
        Future.__init__(self)
        self.pool, self.tid = pool, tid
        self.fn, self.args, self.kwargs = fn, args, kwargs

    def result(self, timeout=None):
        if not self.done():
            self.pool.world.sync_point("result", blocked_on=self)
        else:
            self.pool.world.sync_point("result")
        return Future.result(self, timeout=0)

    def exception(self, timeout=None):
        if not self.done():
            self.pool.world.sync_point("exception", blocked_on=self)
        return Future.exception(self, timeout=0)


class ControlledExecutor(Executor):
    def __init__(self, world, flavour, max_workers=None, **kw):
        if max_workers is None:
            max_workers = 4
        if max_workers <= 0:
            raise ValueError("max_workers must be greater than 0")
        self.world, self.flavour = world, flavour
        self.max_workers = max_workers
        self.queue, self.running, self.finished = [], [], []
        self.closed = False
        self.next_id = 0
        world.pools.append(self)

    def submit(self, fn, /, *args, **kwargs):
        if self.closed or self.world.closed:
            raise RuntimeError("cannot schedule new futures after shutdown")
        if self.flavour == "process":
            # a real process pool pickles the work item when it is handed to
            # a worker; an unpicklable item surfaces through the future
            try:
                fn, args, kwargs = pickle.loads(
                    pickle.dumps((fn, args, kwargs)))
                err = None
            except Exception as exc:
                err = exc
        else:
            err = None
        t = Task(self, self.next_id, fn, args, kwargs)
        self.next_id += 1
        t.pickle_error = err
        self.queue.append(t)
        self.world.log.append(("submit", self.world.pools.index(self), t.tid))
        inflight = len(self.queue) + len(self.running)
        self.world.max_inflight = max(self.world.max_inflight, inflight)
        if self.world.on_event:
            self.world.on_event("submit", self, t)
        self.world.sync_point("submit")
        return t

    def fire(self, kind, task):
        w = self.world
        w.log.append((kind, w.pools.index(self), task.tid))
        if kind == "start":
            self.queue.remove(task)
            self.running.append(task)
            if not task.set_running_or_notify_cancel():
                self.running.remove(task)
                self.finished.append(task)
            if w.on_event:
                w.on_event("start", self, task)
            return
        self.running.remove(task)
        self.finished.append(task)
        if task.pickle_error is not None:
            task.set_exception(task.pickle_error)
        else:
            try:
                r = task.fn(*task.args, **task.kwargs)
                if self.flavour == "process":
                    r = pickle.loads(pickle.dumps(r))
            except BaseException as exc:
                if self.flavour == "process":
                    try:
                        exc = pickle.loads(pickle.dumps(exc))
                    except Exception as pexc:
                        exc = pexc
                task.set_exception(exc)
            else:
                task.set_result(r)
        if w.on_event:
            w.on_event("finish", self, task)

    def shutdown(self, wait=True, *, cancel_futures=False):
        self.closed = True
        if cancel_futures:
            for t in list(self.queue):
                if t.cancel():
                    self.queue.remove(t)
                    self.finished.append(t)
        if wait:
            # main blocks until every task of this pool is done
            while self.queue or self.running:
                pending = (self.queue + self.running)[0]
                self.world.sync_point("shutdown", blocked_on=pending)
                if pending.cancelled() and pending in self.queue:
                    self.queue.remove(pending)
                    self.finished.append(pending)


class InlineExecutor(Executor):
    """Synchronous FIFO executor for harnesses whose subject is not the pool
    (C05, C11): submit runs the task immediately."""

    def __init__(self, max_workers=None, **kw):
        self.max_workers = max_workers

    def submit(self, fn, /, *args, **kwargs):
        f = Future()
        try:
            f.set_result(fn(*args, **kwargs))
        except BaseException as exc:
            f.set_exception(exc)
        return f

    def shutdown(self, wait=True, *, cancel_futures=False):
        pass
