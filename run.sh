#!/bin/bash
# ./run.sh <check-module> quick|thorough      run one check against /repo
# ./run.sh <check-module> --replay <path>     re-execute one recorded case
# The check module is a file name in checks/ without ".py" (c03_intervals) or
# a property id (C03).
set -u
cd "$(dirname "$0")"
export PYTHONHASHSEED=0 PYTHONDONTWRITEBYTECODE=1 OMP_NUM_THREADS=1 \
       OPENBLAS_NUM_THREADS=1 MKL_NUM_THREADS=1 NUMEXPR_NUM_THREADS=1 \
       NUMBA_NUM_THREADS=1 PYTHONWARNINGS=ignore TYPHON_VERIF=1
PY=/venv/bin/python
name="$1"; shift
case "$name" in
  C[0-9][0-9]) f=$(grep -l "^PROP = \"${name}\"" checks/*.py | head -1); f="${f#checks/}"; name="${f%.py}";;
esac
if [ ! -f "checks/${name}.py" ]; then echo "no such check: $name" >&2; exit 2; fi
mkdir -p evidence replays
"$PY" -m "checks.${name}" "$@"
rc=$?
if [ "${1:-}" != "--replay" ] && [ $rc -ne 2 ]; then
  id=$(echo "${name%%_*}" | tr a-z A-Z)
  python3-vt mc/validate_evidence.py "${VERIF_EVIDENCE_DIR:-evidence}/${id}.json" || rc=2
fi
exit $rc
